#!/usr/bin/env python3
"""Registered check driver: deterministic simulation of textwrap's callers.

usage:  checks/check.py <property> [quick|thorough]      (env: VERIF_SEED, VERIF_TIER)
        checks/check.py --replay <replay file>

exit 0  the property's pinned value was the same in every execution explored
exit 1  + a line "VIOLATION property=<id> replay=<path>": two executions with equal
        arguments disagreed on a value the property pins (history, thread, buffer
        placement, a caught fault in caller code, or thread interleaving changed it)
exit 2  the harness itself could not run (build failure, missing tool)

What is decided and what is not: DESIGN.md §9.  The simulator (sim/src/main.rs) is
rebuilt against /repo's current working tree on every invocation (cargo decides
what is stale), for both cargo feature sets of textwrap.
"""
import json
import os
import re
import subprocess
import sys
import time

VERIF = os.path.dirname(os.path.dirname(os.path.abspath(__file__)))
# Registered commands use the defaults (simulator in /verif/sim linking /repo, output under
# /verif). The two overrides exist only for experiments on scratch worktrees
# (tools/checks_on_worktree.sh): a copy of sim/ whose path dependency points elsewhere, and
# a separate output directory, so that /repo and /verif/evidence are left alone.
SIM = os.environ.get("TW_SIM_SRC", os.path.join(VERIF, "sim"))
OUT = os.environ.get("TW_OUT", VERIF)
CACHE = os.path.join(OUT, ".cache")
REPLAYS = os.path.join(OUT, "replays")
EVIDENCE = os.path.join(OUT, "evidence")
PROPS = ["C03", "C05", "C07", "C10", "C11", "C12", "C17", "C18", "C19"]
# "ALL" (the complete result of every call, provenance of borrowed lines included) is not a
# property and is registered nowhere; tools/premise_audit.sh uses it, with TW_OUT set.
if os.environ.get("TW_OUT"):
    PROPS = PROPS + ["ALL"]
NEEDS_SMAWK = {"C03"}  # optimal-fit does not exist without default features

PINNED = {
    "C03": "total cost (documented penalties) of the arrangement wrap_optimal_fit returns for the words of a text on two integer line widths",
    "C05": "the lines wrap/fill return for a text all of whose paragraphs fit the width with the indent they carry (built-in options)",
    "C07": "the first-fit arrangement: wrap_first_fit on words and on a user Fragment (1-4 widths), WrapAlgorithm::FirstFit.wrap with 1-5 widths, and wrap/fill with FirstFit and built-in separator/splitter",
    "C10": "display_width of a text whose ESC characters all begin well-formed sequences",
    "C11": "the words (word, whitespace, penalty, cached width) both built-in separators find in a line",
    "C12": "the pieces split_words + break_words produce from a line's words (hyphen, no-hyphen and custom splitter; all limits)",
    "C17": "the String left behind by fill_inplace",
    "C18": "the text dedent returns",
    "C19": "the text indent returns",
    "ALL": "the complete result of every call on every entry point, including which lines are borrowed from the caller's buffer and where",
}


def die(msg):
    print(f"check error: {msg}", flush=True)
    sys.exit(2)


def build(nodefault):
    tgt = os.path.join(CACHE, "target_nd" if nodefault else "target")
    cmd = ["cargo", "build", "--release", "--offline", "--manifest-path", os.path.join(SIM, "Cargo.toml")]
    if nodefault:
        cmd.append("--no-default-features")
    env = dict(os.environ, CARGO_TARGET_DIR=tgt, CARGO_NET_OFFLINE="true")
    r = subprocess.run(cmd, env=env, capture_output=True, text=True)
    if r.returncode != 0:
        print(r.stderr[-3000:])
        die("the simulator did not build against /repo's working tree" + (" (--no-default-features)" if nodefault else ""))
    return os.path.join(tgt, "release", "tw_sim")


def sim(binary, args, timeout=1800):
    r = subprocess.run([binary] + args, capture_output=True, text=True, timeout=timeout)
    return r.returncode, r.stdout


def digest(out):
    d = {}
    on = False
    for line in out.split("\n"):
        if line == "@@DIGEST@@":
            on = True
            continue
        if line.startswith("@@"):
            on = False
        if on and line:
            k, v = line.split()
            d[k] = v
    return d


def section(out, marker):
    i = out.find(marker)
    return out[i:] if i >= 0 else ""


def stats_of(out):
    m = re.search(r"^STATS (.*)$", out, re.M)
    if not m:
        return {}
    toks = m.group(1).split()
    st = {}
    for i in range(0, len(toks) - 1, 2):
        try:
            st[toks[i]] = int(toks[i + 1])
        except ValueError:
            pass
    return st


def samples_of(out):
    return [l[len("SAMPLE "):][:600] for l in out.split("\n") if l.startswith("SAMPLE ")][:3]


class Violation(Exception):
    def __init__(self, path, summary):
        self.path, self.summary = path, summary


def write_replay(prop, name, header_args, feats, body, kind="hot"):
    os.makedirs(os.path.join(REPLAYS, prop), exist_ok=True)
    path = os.path.join(REPLAYS, prop, name + ".replay")
    with open(path, "w") as f:
        f.write(f"# replay: {' '.join(header_args)}\n# features: {feats}\n# kind: {kind}\n")
        f.write(body)
    return path


def minimise_hot(binary, base, run, keep, extra):
    """Greedy: drop steps (never the last one) while the run alone, in a fresh process, still disagrees."""
    def fails(k):
        rc, out = sim(binary, base + ["--only-run", str(run), "--keep", ",".join(map(str, k))] + extra)
        return rc == 3, out
    ok, out = fails(keep)
    if not ok:
        return None, None
    i = len(keep) - 2
    while i >= 0:
        trial = keep[:i] + keep[i + 1:]
        ok2, out2 = fails(trial)
        if ok2:
            keep, out = trial, out2
        i -= 1
    return keep, out


def explore(prop, binary, feats, seed, runs):
    """One seed, one feature set: hot pass, repeat, cold pass, compare. Returns (stats, samples, seconds)."""
    base = ["hot", "--property", prop, "--seed", str(seed), "--runs", str(runs)]
    t0 = time.time()
    rc, hot = sim(binary, base)
    hot_s = time.time() - t0
    if rc == 3:
        # in-batch disagreement: reproduce from the failing run alone, shrink
        m = re.search(r"run=(\d+) ", hot)
        km = re.search(r"^KEEP ([\d,]+)$", hot, re.M)
        run = int(m.group(1))
        keep = [int(x) for x in km.group(1).split(",")]
        k2, out2 = minimise_hot(binary, base, run, keep, [])
        if k2 is not None:
            args = base + ["--only-run", str(run), "--keep", ",".join(map(str, k2))]
            path = write_replay(prop, f"seed{seed}_{feats}_run{run}", args, feats, out2)
            raise Violation(path, f"history-dependent value, minimised to {len(k2)} steps")
        path = write_replay(prop, f"seed{seed}_{feats}_batch", base[:6] + ["--runs", str(run + 1)], feats, hot)
        raise Violation(path, "history-dependent value (needs the preceding runs of the batch; not minimised)")
    if rc != 0:
        print(hot[-2000:])
        die(f"simulator exited {rc}")
    # one seed = one execution: the same seed in a new process must give the same bytes
    rc2, hot2 = sim(binary, base)
    cbase = ["cold", "--property", prop, "--seed", str(seed), "--runs", str(runs)]
    rcc, cold = sim(binary, cbase)
    if rcc != 0:
        die(f"simulator (cold pass) exited {rcc}")
    hd, cd = digest(hot), digest(cold)
    if len(hd) < 10:
        die("the hot pass observed almost nothing: the workload does not reach this property")
    if hot2 != hot:
        hd2 = digest(hot2)
        diff = [k for k in hd if hd2.get(k) != hd[k]]
        if diff or rc2 != rc:
            k = diff[0] if diff else "?"
            body = f"## the same seed, two processes, different pinned values (first differing key hash {k})\n"
            body += section(sim(binary, base + ["--dump-key", k])[1], "@@DUMP@@") + "## again\n" + section(sim(binary, base + ["--dump-key", k])[1], "@@DUMP@@")
            path = write_replay(prop, f"seed{seed}_{feats}_nondeterministic", base + ["--dump-key", k], feats, body, kind="twice")
            raise Violation(path, "the same seed gave different pinned values in two processes (the tree has a nondeterminism source of its own)")
    bad = sorted(k for k in hd if k in cd and cd[k] != hd[k])
    if bad:
        kh = bad[0]
        _, lone = sim(binary, cbase + ["--window", f"{kh}:0", "--dump-key", kh])
        lone_h = digest(lone).get(kh)
        body_tail = "## the lone call in a fresh process:\n" + section(lone, "@@DUMP@@")
        if lone_h and hd[kh] != lone_h:
            _, dump = sim(binary, base + ["--dump-key", kh])
            m = re.search(r"^first-at run (\d+) step (\d+)", dump, re.M)
            if m:
                run, step = int(m.group(1)), int(m.group(2))
                extra = ["--expect", f"{kh}:{lone_h}"]
                k2, out2 = minimise_hot(binary, base, run, list(range(step + 1)), extra)
                if k2 is not None:
                    args = base + ["--only-run", str(run), "--keep", ",".join(map(str, k2))] + extra
                    path = write_replay(prop, f"seed{seed}_{feats}_key{kh}", args, feats, out2 + body_tail)
                    raise Violation(path, f"value under a call history differs from the lone call; minimised to {len(k2)} steps ({len(bad)} keys disagree)")
            path = write_replay(prop, f"seed{seed}_{feats}_key{kh}", base + ["--dump-key", kh], feats, section(dump, "@@DUMP@@") + body_tail, kind="dump")
            raise Violation(path, f"value under a call history differs from the lone call ({len(bad)} keys disagree; not minimised)")
        # the reference pass deviates from the lone call: shrink the window of preceding calls
        def win(n):
            return digest(sim(binary, cbase + ["--window", f"{kh}:{n}"])[1]).get(kh)
        n, found = 1, None
        while n <= 65536:
            if win(n) not in (None, lone_h):
                found = n
                break
            n *= 2
        if found:
            lo, hi = found // 2, found
            while hi - lo > 1:
                mid = (lo + hi) // 2
                if win(mid) not in (None, lone_h):
                    hi = mid
                else:
                    lo = mid
            _, w = sim(binary, cbase + ["--window", f"{kh}:{hi}", "--dump-all"])
            body = f"## the {hi} preceding call(s) of the reference order, then the key, in execution order (one thread, fresh allocation per call):\n" + section(w, "@@DUMP@@") + body_tail
            path = write_replay(prop, f"seed{seed}_{feats}_key{kh}", cbase + ["--window", f"{kh}:{hi}", "--dump-key", kh], feats, body, kind=f"window-vs-lone {kh} {lone_h}")
            raise Violation(path, f"value after {hi} preceding single-thread call(s) differs from the lone call ({len(bad)} keys disagree)")
        _, w = sim(binary, cbase + ["--dump-key", kh])
        path = write_replay(prop, f"seed{seed}_{feats}_key{kh}", cbase + ["--dump-key", kh], feats, section(w, "@@DUMP@@") + body_tail, kind=f"window-vs-lone {kh} {lone_h}")
        raise Violation(path, f"hot pass and fresh-process reference pass disagree on {len(bad)} keys (not minimised)")
    st = stats_of(hot)
    st["reference_pass_keys"] = len(cd)
    st["keys_compared_hot_vs_reference"] = len([k for k in hd if k in cd])
    return st, samples_of(hot), hot_s


def miri_pass(prop, workloads, schedules, seed0, native):
    """Interleavings inside calls: caller threads free-run overlapping in-domain calls under Miri.
    One interpreter process per (workload seed, scheduler seed); up to 16 at a time (Miri's own
    -Zmiri-many-seeds shares one process and scales badly here).
    Reference values: each workload's calls are first made natively, alone, in a fresh
    single-threaded process (`--reference-only`); the interpreter runs get their hashes
    (`--expect-ref`). Even scheduler seeds run cold (`--warm 0`: no call before the threads
    start, so threads meet every lazily initialised table or memo untouched), odd ones warm
    (`--warm 1`: the main thread makes every call once first). In both, every concurrent
    result must equal the native reference, the main thread's result after the race, and
    (warm) its result before it."""
    import concurrent.futures
    if subprocess.run(["cargo", "+nightly", "miri", "--version"], capture_output=True).returncode != 0:
        die("thorough tier needs cargo +nightly miri")
    base_env = dict(os.environ, CARGO_TARGET_DIR=os.path.join(CACHE, "miri_target"), CARGO_NET_OFFLINE="true")

    refs = {}
    for ws in range(seed0, seed0 + workloads):
        rc, out = sim(native, ["parallel", "--property", prop, "--seed", str(ws), "--reference-only"])
        m = re.search(r"^REFERENCE (\S+)$", out, re.M)
        if rc != 0 or not m:
            die(f"native reference for race workload {ws} failed")
        refs[ws] = m.group(1)

    def args_of(ws, sched):
        return ["parallel", "--property", prop, "--seed", str(ws), "--warm", str(sched % 2), "--expect-ref", refs[ws]]

    def rate_of(sched):
        # swarm style: the preemption rate varies with the scheduler seed (pairs of a cold and a
        # warm schedule share one) - rare preemption lets calls overlap in long stretches, frequent
        # preemption lands inside windows only two instructions wide
        return [0.05, 0.2, 0.01, 0.5][(sched // 2) % 4]

    def one(ws, sched):
        env = dict(base_env, MIRIFLAGS=f"-Zmiri-seed={sched} -Zmiri-preemption-rate={rate_of(sched)}")
        cmd = ["cargo", "+nightly", "miri", "run", "--offline", "--manifest-path", os.path.join(SIM, "Cargo.toml"), "--"] + args_of(ws, sched)
        r = subprocess.run(cmd, env=env, capture_output=True, text=True)
        return ws, sched, r.returncode, r.stdout + r.stderr

    jobs = [(ws, k) for ws in range(seed0, seed0 + workloads) for k in range(schedules)]
    first = one(*jobs[0])  # the first run also builds; the others then only interpret
    execs = 0
    ex = concurrent.futures.ThreadPoolExecutor(max_workers=int(os.environ.get("MIRI_JOBS", "16")))
    futs = [ex.submit(one, *j) for j in jobs[1:]]
    try:
        # results are taken in job order, so what is reported does not depend on which
        # interpreter finishes first; at the first violation the jobs not yet started are dropped
        for idx in range(len(jobs)):
            ws, sched, rc, out = first if idx == 0 else futs[idx - 1].result()
            execs += len(re.findall(r"^parallel pass", out, re.M))
            if rc != 0:
                if re.search(r"SCHEDULE-DEPENDENT|Undefined Behavior|Data race", out):
                    i = min(x for x in (out.find("SCHEDULE-DEPENDENT"), out.find("Undefined Behavior"), out.find("Data race")) if x >= 0)
                    args = args_of(ws, sched)
                    path = write_replay(prop, f"miri_workload{ws}_schedule{sched}", args, "full", out[i:i + 3000] + "\n",
                                        kind=f"miri -Zmiri-seed={sched} -Zmiri-preemption-rate={rate_of(sched)}")
                    raise Violation(path, f"value depends on how caller threads interleave inside calls (workload seed {ws}, scheduler seed {sched})")
                print(out[-3000:])
                die(f"miri run failed for workload seed {ws}, scheduler seed {sched}")
    finally:
        ex.shutdown(wait=True, cancel_futures=True)
    return execs


def replay(path):
    lines = open(path).read().split("\n")
    args = lines[0][len("# replay: "):].split()
    feats = lines[1][len("# features: "):].strip()
    kind = lines[2][len("# kind: "):].strip()
    prop = args[args.index("--property") + 1]
    if kind.startswith("miri"):
        flags = kind[len("miri "):]
        env = dict(os.environ, CARGO_TARGET_DIR=os.path.join(CACHE, "miri_target"), CARGO_NET_OFFLINE="true", MIRIFLAGS=flags)
        r = subprocess.run(["cargo", "+nightly", "miri", "run", "--offline", "--manifest-path", os.path.join(SIM, "Cargo.toml"), "--"] + args,
                           env=env, capture_output=True, text=True)
        print((r.stdout + r.stderr)[-3000:])
        reproduced = r.returncode != 0 and "SCHEDULE-DEPENDENT" in r.stdout + r.stderr
    else:
        binary = build(feats == "nodefault")
        rc, out = sim(binary, args)
        print(out[-4000:])
        if kind.startswith("window-vs-lone"):
            _, kh, lone_h = kind.split()
            reproduced = digest(out).get(kh) not in (None, lone_h)
        elif kind == "twice":
            rc2, out2 = sim(binary, args)
            reproduced = out != out2
        elif kind == "dump":
            reproduced = True  # informational dump of a batch-level disagreement
        else:
            reproduced = rc == 3
    if reproduced:
        print(f"VIOLATION property={prop} replay={path}")
        sys.exit(1)
    print("replay did not reproduce on this tree")
    sys.exit(0)


def main():
    if len(sys.argv) >= 3 and sys.argv[1] == "--replay":
        replay(sys.argv[2])
    if len(sys.argv) >= 2 and sys.argv[1] == "--setup":
        # build the simulator for both feature sets so that the first check does not pay for it
        os.makedirs(CACHE, exist_ok=True)
        build(False)
        build(True)
        print("setup ok: simulator built for both feature sets under", CACHE)
        sys.exit(0)
    if len(sys.argv) < 2 or sys.argv[1] not in PROPS:
        die(f"usage: check.py <{'|'.join(PROPS)}> [quick|thorough]  |  --replay <file>")
    prop = sys.argv[1]
    tier = (sys.argv[2] if len(sys.argv) > 2 else os.environ.get("VERIF_TIER", "quick")).lower()
    miri_only = tier == "miri"  # premise audit --miri: the interpreter pass alone
    if tier not in ("quick", "thorough"):
        tier = "quick"
    try:
        seed = int(os.environ.get("VERIF_SEED", "1"))
    except ValueError:
        seed = 1
    runs = int(os.environ.get("PROBE_RUNS", "2000")) if os.environ.get("TW_OUT") else 2000
    seeds = [seed] if tier == "quick" else list(range(seed, seed + int(os.environ.get("THOROUGH_SEEDS", "48"))))
    t0 = time.time()
    os.makedirs(CACHE, exist_ok=True)
    os.makedirs(EVIDENCE, exist_ok=True)
    ev_path = os.path.join(EVIDENCE, f"{prop}.json")
    if os.path.exists(ev_path):
        os.remove(ev_path)
    feature_sets = [("full", build(False))]
    if prop not in NEEDS_SMAWK:
        feature_sets.append(("nodefault", build(True)))
    total, per_config, samples, hot_seconds = {}, [], [], 0.0
    violation = None
    miri_execs = 0
    try:
        import concurrent.futures
        jobs = [(feats, binary, s) for feats, binary in ([] if miri_only else feature_sets) for s in seeds]
        # seeds are independent executions: the thorough tier runs them on all cores; results
        # (and the first violation, if any) are taken in job order, so the outcome does not
        # depend on which process finishes first
        with concurrent.futures.ThreadPoolExecutor(max_workers=1 if tier == "quick" else int(os.environ.get("EXPLORE_JOBS", "16"))) as ex:
            futs = [ex.submit(explore, prop, binary, feats, s, runs) for feats, binary, s in jobs]
            for (feats, binary, s), fut in zip(jobs, futs):
                st, smp, hs = fut.result()
                hot_seconds += hs
                per_config.append({"features": feats, "seed": s, **{k: st[k] for k in ("in_domain_executions", "distinct_keys", "keys_in_2plus_contexts", "faults_fired")}})
                for k, v in st.items():
                    if k not in ("seed",):
                        total[k] = total.get(k, 0) + v
                if len(samples) < 3:
                    samples += smp
        if tier == "thorough" or miri_only:
            miri_execs = miri_pass(prop, int(os.environ.get("MIRI_WORKLOADS", "16")), int(os.environ.get("MIRI_SCHEDULES", "16")), seed, feature_sets[0][1])
    except Violation as v:
        violation = v
    wall = time.time() - t0
    ev = {
        "property_id": prop,
        "tier": tier,
        "seed": seed,
        "level": "exploration",
        "coverage": {
            "evaluations": max(1, total.get("in_domain_executions", 0)),
            "distinct_nontrivial": max(2, total.get("keys_in_2plus_contexts", 0)) if total else 2,
            "rule": ("cases are library calls made inside seeded caller histories (sim/src/main.rs): one PRNG stream per (seed, property) draws texts over a mixed alphabet, "
                     "the calls (half of the new ones inside this property's domain, the rest over all 15 call kinds), which of 1-4 real caller threads makes each call, "
                     "whether its text sits in a reused buffer, a buffer shared by all threads or a fresh allocation, thread restarts, at which invocation caller-supplied code (separator, splitter, algorithm, any of the three Fragment methods) panics, "
                     "whether the thread retries the failed call, whether a lazy iterator the library returned is drained at once, held across another complete call, or dropped undrained, and whether caller-supplied code re-enters the library. "
                     "evaluations = executions whose result this property pins. A case is (entry point, argument values); it is non-trivial when it was executed in at least two different contexts "
                     "(run, thread, storage, before/after a caught fault on that thread) so that its value was actually compared; distinct_nontrivial counts those keys, summed over seeds and feature sets. "
                     "Every in-domain key is also re-executed by a fresh-process reference pass (one thread, fresh allocations, reverse-sorted order) and compared."),
            "samples": samples[:3] or ["(no sample: the run ended in a violation before sampling)"],
            "pinned_value": PINNED[prop],
            "oracle": "self-consistency only: equal arguments must give equal pinned values in every execution; the simulator has no model of what the value should be, so a change that computes the same wrong value every time is invisible to it (DESIGN.md §9)",
            "simulated_runs": total.get("runs", 0),
            "seeds": seeds,
            "feature_sets": [f for f, _ in feature_sets],
            "runs_per_hour_one_core": int(total.get("runs", 0) * 3600 / hot_seconds) if hot_seconds > 0 else 0,
            "simulated_time": "not applicable: the library has no clock, timer or deadline; progress is counted in calls",
            "events_injected": {
                "caller_buffer_reused_with_new_contents": total.get("buffer_reuses_new_contents", 0),
                "same_shared_buffer_used_from_threads": total.get("shared_buffer_calls", 0),
                "calls_made_with_a_long_lived_Options_object_mutated_between_calls": total.get("calls_with_reused_options_object", 0),
                "thread_exit_and_respawn": total.get("worker_restarts", 0),
                "panic_in_caller_code_armed": total.get("faults_armed", 0),
                "panic_in_caller_code_fired_and_caught": total.get("faults_fired", 0),
                "calls_on_a_thread_after_it_caught_a_panic": total.get("calls_after_fault_same_thread", 0),
                "in_domain_keys_seen_before_and_after_a_caught_panic_on_one_thread": total.get("keys_before_and_after_fault", 0),
                "callback_invocations": total.get("callback_invocations", 0),
                "lazy_iterator_held_across_other_calls_then_drained": total.get("iterators_held_then_drained", 0),
                "lazy_iterator_dropped_undrained": total.get("iterators_dropped_undrained", 0),
                "calls_made_while_an_iterator_of_the_same_thread_was_held": total.get("calls_made_while_iterator_held", 0),
                "reentrant_library_calls_made_from_inside_caller_supplied_code": total.get("reentrant_calls_from_caller_code", 0),
            },
            "interleavings": {
                "distinct_call_orders": total.get("distinct_call_orders", 0),
                "keys_seen_on_2plus_threads": total.get("keys_on_2plus_threads", 0),
                "library_internal_scheduling_points": 0,
                "note": "caller threads are real and are released one call at a time by the seeded scheduler; the library contains no synchronisation, I/O or timer call, so whole calls are the only unit a scheduler can order. The thorough tier adds a Miri pass in which threads interleave inside calls (16 workloads x 16 scheduler seeds, preemption rate 0.01-0.5 by seed, cold and warm starts, reference values from a native fresh process).",
                "miri_executions": miri_execs,
            },
            "reference_pass": {"keys": total.get("reference_pass_keys", 0), "compared_with_hot_pass": total.get("keys_compared_hot_vs_reference", 0)},
            "real_code": "every call executes the textwrap library built from /repo's working tree (release profile; under Miri the same sources interpreted)",
            "stubs": "none in the library; harness-only: caller threads, their buffers, the scheduler, the Custom separator/splitter/algorithm callbacks and the user Fragment that raise injected panics",
            "per_config": per_config,
        },
        "assumptions": [
            "the property's statement pins the observed value as a function of the call's arguments, so two executions with equal arguments and different values cannot both satisfy it",
            "C05's domain test uses the library's own display_width on the calling thread",
            "seeded search, not enumeration: a clean batch is evidence, not proof",
        ],
        "wall_s": round(wall, 2),
        "violations": 1 if violation else 0,
    }
    json.dump(ev, open(ev_path, "w"), indent=1, ensure_ascii=False)
    if violation:
        print(f"{prop}: {violation.summary}")
        try:
            print(open(violation.path).read()[:3000])
        except OSError:
            pass
        print(f"VIOLATION property={prop} replay={violation.path}", flush=True)
        sys.exit(1)
    print(f"{prop} [{tier}] held: {ev['coverage']['evaluations']} in-domain executions, {ev['coverage']['distinct_nontrivial']} keys compared across contexts, "
          f"{ev['coverage']['events_injected']['panic_in_caller_code_fired_and_caught']} caller panics caught, seeds {seeds[0]}..{seeds[-1]}, "
          f"feature sets {[f for f, _ in feature_sets]}, miri executions {miri_execs}, {wall:.1f}s")
    sys.exit(0)


if __name__ == "__main__":
    main()
