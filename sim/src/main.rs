//! tw_sim — deterministic simulation of *callers* of textwrap.
//!
//! What is simulated: a process in which 1–4 caller threads use the library the
//! way applications do — each thread keeps a few reusable `String` buffers, some
//! texts are shared between threads, threads come and go, and callers pass their
//! own code into the library (`WordSeparator::Custom`, `WordSplitter::Custom`,
//! `WrapAlgorithm::Custom`, a user `Fragment`), which may panic; the caller
//! catches the panic and carries on.  Every choice (texts, calls, which thread
//! calls next, where its buffer lives, restarts, where a callback panics) comes
//! from ONE splitmix64 stream seeded by `--seed`; threads are real but are
//! released one call at a time, so one seed is one execution.
//!
//! What is real: every call goes into the textwrap library built from /repo's
//! working tree.  Nothing of the library is stubbed.
//!
//! Oracle (the *self-consistency rule*): the simulator has no idea what wrapping
//! should produce.  For a property whose statement pins a value as a function of
//! the call's arguments (the width of a text, the word list of a line, the
//! first-fit arrangement, the cost of the optimal arrangement, the dedented
//! text, ...) it records that value for every in-domain call, keyed by (entry
//! point, argument VALUES), and requires that all executions of a key — on any
//! thread, in any buffer, before or after caught panics, in the hot history or
//! in the fresh-process reference pass, or alone in a new process — agree.  Two
//! executions with equal arguments and different pinned values cannot both
//! satisfy the property, so a disagreement is a violation, with the history that
//! produced it as the replay.
//!
//! It cannot see a change that computes the same wrong value every time: that is
//! an input-level fault and belongs to another technique (DESIGN.md §9).

use std::cell::Cell;
use std::collections::{BTreeMap, BTreeSet};
use std::fmt::Write as _;
use std::sync::mpsc;
use std::sync::Arc;

use textwrap::core::{break_words, display_width, Fragment, Word};
use textwrap::word_splitters::split_words;
use textwrap::wrap_algorithms::wrap_first_fit;
#[cfg(feature = "full")]
use textwrap::wrap_algorithms::{wrap_optimal_fit, Penalties};
use textwrap::{
    dedent, fill, fill_inplace, indent, refill, unfill, wrap, wrap_columns, LineEnding, Options,
    WordSeparator, WordSplitter, WrapAlgorithm,
};

// ===========================================================================
// PRNG: the only source of choice.
#[derive(Clone)]
struct Rng(u64);
impl Rng {
    fn new(seed: u64) -> Self {
        Rng(seed ^ 0x9E37_79B9_7F4A_7C15)
    }
    fn next(&mut self) -> u64 {
        self.0 = self.0.wrapping_add(0x9E37_79B9_7F4A_7C15);
        let mut z = self.0;
        z = (z ^ (z >> 30)).wrapping_mul(0xBF58_476D_1CE4_E5B9);
        z = (z ^ (z >> 27)).wrapping_mul(0x94D0_49BB_1331_11EB);
        z ^ (z >> 31)
    }
    fn below(&mut self, n: usize) -> usize {
        (self.next() % n as u64) as usize
    }
    fn chance(&mut self, num: u64, den: u64) -> bool {
        self.next() % den < num
    }
}

fn fnv(s: &str) -> u64 {
    let mut h: u64 = 0xcbf29ce484222325;
    for b in s.as_bytes() {
        h ^= *b as u64;
        h = h.wrapping_mul(0x100000001b3);
    }
    h
}

// ===========================================================================
// Fault: a panic raised from caller-supplied code at its k-th invocation.
thread_local! {
    static COUNTDOWN: Cell<i64> = const { Cell::new(-1) };
    static TICKS: Cell<u64> = const { Cell::new(0) };
    // harness state of the simulated caller: does this call reuse the thread's long-lived Options object?
    static REUSE_OPTIONS: Cell<bool> = const { Cell::new(false) };
    static PERSISTENT_OPTIONS: std::cell::RefCell<Option<Options<'static>>> = const { std::cell::RefCell::new(None) };
}
thread_local! {
    // Re-entrancy: at its k-th invocation, caller-supplied code makes a library call
    // of its own (a fault-free call with built-in options on a fresh copy of a text)
    // before returning to the library frame that called it.
    static REENTER: std::cell::RefCell<Option<(i64, Call, String)>> = const { std::cell::RefCell::new(None) };
    static REENTER_OUT: std::cell::RefCell<Option<(Call, Outcome)>> = const { std::cell::RefCell::new(None) };
}
const INJECTED: &str = "injected fault in caller-supplied code";
fn tick() {
    TICKS.with(|t| t.set(t.get() + 1));
    let due = REENTER.with(|r| {
        let mut r = r.borrow_mut();
        match r.as_mut() {
            Some((k, _, _)) if *k <= 0 => r.take(),
            Some((k, _, _)) => {
                *k -= 1;
                None
            }
            None => None,
        }
    });
    if let Some((_, call, text)) = due {
        let mut fresh = text;
        let out = run_nested(&call, &mut fresh, &[]);
        REENTER_OUT.with(|o| *o.borrow_mut() = Some((call, out)));
    }
    COUNTDOWN.with(|c| {
        let v = c.get();
        if v == 0 {
            c.set(-1);
            panic!("{}", INJECTED);
        } else if v > 0 {
            c.set(v - 1);
        }
    });
}
fn custom_separator(line: &str) -> Box<dyn Iterator<Item = Word<'_>> + '_> {
    tick();
    WordSeparator::AsciiSpace.find_words(line)
}
fn custom_splitter(word: &str) -> Vec<usize> {
    tick();
    WordSplitter::HyphenSplitter.split_points(word)
}
fn custom_algorithm<'a, 'b>(words: &'b [Word<'a>], line_widths: &'b [usize]) -> Vec<&'b [Word<'a>]> {
    tick();
    let f: Vec<f64> = line_widths.iter().map(|w| *w as f64).collect();
    wrap_first_fit(words, &f)
}
// A second, different implementation of each callback: two `Custom(..)` values
// share an enum variant but not a behaviour (a cache keyed on the variant alone
// confuses them).
fn custom_separator_b(line: &str) -> Box<dyn Iterator<Item = Word<'_>> + '_> {
    tick();
    // breaks after every hyphen or comma as well as at spaces
    let mut words = Vec::new();
    for w in WordSeparator::AsciiSpace.find_words(line) {
        let mut start = 0;
        let text = w.word;
        for (i, ch) in text.char_indices() {
            let end = i + ch.len_utf8();
            if (ch == '-' || ch == ',') && end < text.len() {
                words.push(Word::from(&text[start..end]));
                start = end;
            }
        }
        let mut last = Word::from(&text[start..]);
        last.whitespace = w.whitespace;
        words.push(last);
    }
    Box::new(words.into_iter())
}
fn custom_splitter_b(word: &str) -> Vec<usize> {
    tick();
    // one split point in the middle (on a char boundary) of words of four or more chars
    let n = word.chars().count();
    if n < 4 {
        return Vec::new();
    }
    word.char_indices().nth(n / 2).map(|(i, _)| vec![i]).unwrap_or_default()
}
fn custom_algorithm_b<'a, 'b>(words: &'b [Word<'a>], _line_widths: &'b [usize]) -> Vec<&'b [Word<'a>]> {
    tick();
    // two words per line
    if words.is_empty() {
        return vec![words];
    }
    words.chunks(2).collect()
}
#[derive(Debug)]
struct UserFragment {
    width: f64,
    whitespace: f64,
    penalty: f64,
}
impl Fragment for UserFragment {
    fn width(&self) -> f64 {
        tick();
        self.width
    }
    // all three methods are caller-supplied code: each is a fault site
    fn whitespace_width(&self) -> f64 {
        tick();
        self.whitespace
    }
    fn penalty_width(&self) -> f64 {
        tick();
        self.penalty
    }
}

// ===========================================================================
// Properties with a pinned value (DESIGN.md §9.2).
const PROPS: [&str; 9] = ["C03", "C05", "C07", "C10", "C11", "C12", "C17", "C18", "C19"];

// ===========================================================================
// Calls.
// pairs of equal byte length and different display width are deliberate
// ("> > " extends "> ": state kept about one prefix must not survive a change to a related one)
const INDENTS: [&str; 8] = ["", "  ", "> ", "* ", "\u{3000}-", "    ", "\u{2022} ", "> > "];
const WIDTHS: [usize; 10] = [0, 1, 2, 3, 5, 8, 13, 20, 40, usize::MAX];

#[derive(Clone, Debug, PartialEq, Eq, PartialOrd, Ord)]
struct Opt {
    width: usize,
    alg: u8,   // 0 first-fit, 1 optimal-fit (first-fit without smawk), 2 custom A, 3 custom B
    sep: u8,   // 0 ascii, 1 WordSeparator::new() (unicode with the feature), 2 custom A, 3 custom B
    split: u8, // 0 none, 1 hyphen, 2 custom A, 3 custom B
    bw: bool,
    ii: u8,
    si: u8,
    crlf: bool,
}
impl Opt {
    fn uses_callbacks(&self) -> bool {
        self.alg >= 2 || self.sep >= 2 || self.split >= 2
    }
    fn line_ending(&self) -> &'static str {
        if self.crlf {
            "\r\n"
        } else {
            "\n"
        }
    }
    /// The `Options` value the caller passes. Usually built afresh; when the
    /// harness flag REUSE_OPTIONS is set, the calling thread keeps ONE `Options`
    /// object for its lifetime — first created through the builder methods, later
    /// updated by assigning every public field — as an application that keeps its
    /// options around and tweaks them would. Field for field the value is the same.
    fn build(&self) -> Options<'static> {
        if REUSE_OPTIONS.with(|r| r.get()) {
            return PERSISTENT_OPTIONS.with(|p| {
                let mut slot = p.borrow_mut();
                let fresh = self.build_fresh();
                match slot.as_mut() {
                    None => {
                        let o = Options::new(fresh.width)
                            .line_ending(fresh.line_ending)
                            .initial_indent(fresh.initial_indent)
                            .subsequent_indent(fresh.subsequent_indent)
                            .break_words(fresh.break_words)
                            .word_separator(fresh.word_separator)
                            .wrap_algorithm(fresh.wrap_algorithm)
                            .word_splitter(fresh.word_splitter);
                        *slot = Some(o.clone());
                        o
                    }
                    Some(o) => {
                        o.width = fresh.width;
                        o.line_ending = fresh.line_ending;
                        o.initial_indent = fresh.initial_indent;
                        o.subsequent_indent = fresh.subsequent_indent;
                        o.break_words = fresh.break_words;
                        o.wrap_algorithm = fresh.wrap_algorithm;
                        o.word_separator = fresh.word_separator;
                        o.word_splitter = fresh.word_splitter;
                        o.clone()
                    }
                }
            });
        }
        self.build_fresh()
    }
    fn build_fresh(&self) -> Options<'static> {
        let mut o = Options::new(self.width);
        o.wrap_algorithm = match self.alg {
            0 => WrapAlgorithm::FirstFit,
            1 => optimal_alg(),
            2 => WrapAlgorithm::Custom(custom_algorithm),
            _ => WrapAlgorithm::Custom(custom_algorithm_b),
        };
        o.word_separator = match self.sep {
            0 => WordSeparator::AsciiSpace,
            1 => WordSeparator::new(),
            2 => WordSeparator::Custom(custom_separator),
            _ => WordSeparator::Custom(custom_separator_b),
        };
        o.word_splitter = match self.split {
            0 => WordSplitter::NoHyphenation,
            1 => WordSplitter::HyphenSplitter,
            2 => WordSplitter::Custom(custom_splitter),
            _ => WordSplitter::Custom(custom_splitter_b),
        };
        o.break_words = self.bw;
        o.initial_indent = INDENTS[self.ii as usize];
        o.subsequent_indent = INDENTS[self.si as usize];
        o.line_ending = if self.crlf { LineEnding::CRLF } else { LineEnding::LF };
        o
    }
}
#[cfg(feature = "full")]
fn optimal_alg() -> WrapAlgorithm {
    WrapAlgorithm::new_optimal_fit()
}
#[cfg(not(feature = "full"))]
fn optimal_alg() -> WrapAlgorithm {
    WrapAlgorithm::FirstFit
}

#[derive(Clone, Copy, Debug, PartialEq, Eq, PartialOrd, Ord)]
enum Kind {
    DisplayWidth,
    FindWords,
    Words,
    Wrap,
    Fill,
    Unfill,
    Refill,
    FillInplace,
    Indent,
    Dedent,
    WrapColumns,
    Fragments,
    OptimalFit4,
    CustomFragments,
    AlgWrap,
}
const KINDS: [Kind; 15] = [
    Kind::DisplayWidth,
    Kind::FindWords,
    Kind::Words,
    Kind::Wrap,
    Kind::Fill,
    Kind::Unfill,
    Kind::Refill,
    Kind::FillInplace,
    Kind::Indent,
    Kind::Dedent,
    Kind::WrapColumns,
    Kind::Fragments,
    Kind::OptimalFit4,
    Kind::CustomFragments,
    Kind::AlgWrap,
];
/// Entry points whose result a property observes.
fn kinds_of(prop: &str) -> &'static [Kind] {
    match prop {
        "C03" => &[Kind::Fragments, Kind::CustomFragments],
        "C05" => &[Kind::Wrap, Kind::Fill],
        "C07" => &[Kind::Wrap, Kind::Fill, Kind::Fragments, Kind::CustomFragments, Kind::AlgWrap],
        "C10" => &[Kind::DisplayWidth],
        "C11" => &[Kind::FindWords],
        "C12" => &[Kind::Words],
        "C17" => &[Kind::FillInplace],
        "C18" => &[Kind::Dedent],
        "C19" => &[Kind::Indent],
        _ => &KINDS,
    }
}

#[derive(Clone, Debug, PartialEq, Eq, PartialOrd, Ord)]
struct Call {
    kind: Kind,
    text: usize, // index into the run's text pool; the key uses the text's VALUE
    opt: Opt,
    fault_at: i64, // -1: none; k: panic at the k-th invocation of caller-supplied code
    /// HOW the caller consumes a lazy iterator the library returned (`find_words`,
    /// `split_words`): pull `pulls` items, then (with the iterator still alive) make
    /// the `nested` call if there is one, then either drain the rest or drop the
    /// iterator undrained.  Not an argument: only `drop_early` enters the key (the
    /// pinned value is then the first `pulls` items).
    hold: Option<Hold>,
    /// A second library call made by the same thread WHILE this one is in progress:
    /// between pulls of a held iterator (`hold`), or from inside caller-supplied code
    /// at its `reenter_at`-th invocation (re-entrancy).  Always fault-free, built-in
    /// options, on a fresh copy of its text.  Not part of the key.
    nested: Option<Box<Call>>,
    reenter_at: i64,
}
#[derive(Clone, Debug, PartialEq, Eq, PartialOrd, Ord)]
struct Hold {
    pulls: usize,
    drop_early: bool,
}
impl Call {
    fn plain(kind: Kind, text: usize, opt: Opt, fault_at: i64) -> Call {
        Call { kind, text, opt, fault_at, hold: None, nested: None, reenter_at: -1 }
    }
    /// The call as the reference pass makes it: alone (nothing nested).
    fn alone(&self) -> Call {
        let mut c = self.clone();
        c.nested = None;
        c.reenter_at = -1;
        if !matches!(c.hold, Some(Hold { drop_early: true, .. })) {
            c.hold = None;
        }
        c
    }
}
fn key_of(c: &Call, texts: &[String]) -> String {
    let mut k = format!("{:?}|{:?}|fault={}|{:?}", c.kind, c.opt, c.fault_at, texts[c.text]);
    if let Some(Hold { pulls, drop_early: true }) = &c.hold {
        let _ = write!(k, "|first={pulls}");
    }
    k
}

// ---------------------------------------------------------------------------
// Executing one call and extracting the pinned values.
struct Outcome {
    /// everything the call returned (incl. provenance of borrowed lines); compared under `--property ALL`
    full: String,
    /// (property, pinned value) for each property that observes this call and whose domain contains it
    obs: Vec<(&'static str, String)>,
    /// the call made while this one was in progress, and what it returned
    nested: Option<Box<(Call, Outcome)>>,
}

/// Consumes a lazy iterator the library returned the way `hold` says (see `Call::hold`).
fn pull_held<'a, I: Iterator<Item = Word<'a>>>(mut it: I, c: &Call, texts: &[String]) -> Vec<Word<'a>> {
    let mut v = Vec::new();
    match &c.hold {
        None => v.extend(it),
        Some(h) => {
            for _ in 0..h.pulls {
                match it.next() {
                    Some(w) => v.push(w),
                    None => break,
                }
            }
            // the iterator is alive and undrained here
            if let (Some(nc), true) = (&c.nested, c.reenter_at < 0) {
                if let Some(t) = texts.get(nc.text) {
                    let mut fresh = t.clone();
                    let out = run_nested(nc, &mut fresh, texts);
                    REENTER_OUT.with(|o| *o.borrow_mut() = Some(((**nc).clone(), out)));
                }
            }
            if !h.drop_early {
                v.extend(it);
            } // else: dropped undrained
        }
    }
    v
}

fn lines_content(lines: &[std::borrow::Cow<'_, str>]) -> String {
    let mut s = String::new();
    for l in lines {
        let _ = write!(s, "{:?};", l.as_ref());
    }
    s
}
fn lines_full(buf: &str, lines: &[std::borrow::Cow<'_, str>]) -> String {
    let base = buf.as_ptr() as usize;
    let mut s = String::new();
    for l in lines {
        match l {
            std::borrow::Cow::Borrowed(b) => {
                // an empty slice has no meaningful address (it may be a literal "")
                let off = (b.as_ptr() as usize).wrapping_sub(base);
                let off = if b.is_empty() { -2 } else if off <= buf.len() { off as i64 } else { -1 };
                let _ = write!(s, "B@{}+{}:{:?};", off, b.len(), b);
            }
            std::borrow::Cow::Owned(o) => {
                let _ = write!(s, "O:{:?};", o);
            }
        }
    }
    s
}
fn words_repr(ws: &[Word<'_>]) -> String {
    let mut s = String::new();
    for w in ws {
        let _ = write!(s, "{:?}/{:?}/{:?}/{};", w.word, w.whitespace, w.penalty, Fragment::width(w));
    }
    s
}
fn shape<T>(ls: &[&[T]]) -> String {
    ls.iter().map(|l| l.len().to_string()).collect::<Vec<_>>().join(",")
}

/// C05's domain: every paragraph, with the indent it will carry, fits the width
/// (the widths are the library's own `display_width`, evaluated on the calling thread).
fn all_paragraphs_fit(text: &str, o: &Opt) -> bool {
    let mut first = true;
    for par in text.split(o.line_ending()) {
        let ind = if first { INDENTS[o.ii as usize] } else { INDENTS[o.si as usize] };
        first = false;
        match display_width(par).checked_add(display_width(ind)) {
            Some(w) if w <= o.width => {}
            _ => return false,
        }
    }
    true
}

/// The documented cost of an arrangement under penalties `p` (per-line penalty;
/// linear overflow; squared gap on all but the last line; short one-fragment last
/// line; a line ending in a penalty).  Used only to turn
/// an optimal-fit arrangement into the number C03 pins; never compared against a
/// minimum computed here.
/// C03 quantifies over "default and arbitrary non-negative penalties": the call's
/// `bw`/`crlf` bits (otherwise unused by the fragment-level call) select one of four.
#[cfg(feature = "full")]
fn penalties_of(o: &Opt) -> Penalties {
    let mut p = Penalties::new();
    match (o.bw, o.crlf) {
        (false, false) => {}
        (true, false) => {
            p.nline_penalty = 0;
            p.short_last_line_penalty = 0;
        }
        (false, true) => {
            p.overflow_penalty = 1;
            p.hyphen_penalty = 500;
        }
        (true, true) => {
            p.nline_penalty = 10_000;
            p.overflow_penalty = 10;
            p.short_last_line_fraction = 2;
            p.short_last_line_penalty = 3_000;
        }
    }
    p
}
#[cfg(feature = "full")]
fn arrangement_cost(lines: &[&[Word<'_>]], line_widths: &[f64], p: &Penalties) -> f64 {
    let vals: Vec<Vec<(f64, f64, f64)>> = lines.iter().map(|l| l.iter().map(|f| (Fragment::width(f), f.whitespace_width(), f.penalty_width())).collect()).collect();
    cost_of(&vals, line_widths, p)
}
/// `lines`: per line, the (width, whitespace width, penalty width) of its fragments.
#[cfg(feature = "full")]
fn cost_of(lines: &[Vec<(f64, f64, f64)>], line_widths: &[f64], p: &Penalties) -> f64 {
    let mut cost = 0.0;
    let n = lines.len();
    for (k, line) in lines.iter().enumerate() {
        if line.is_empty() {
            cost += 1e12; // not an arrangement at all: make it visible in the number
            continue;
        }
        let target = line_widths.get(k).or(line_widths.last()).copied().unwrap_or(0.0).max(1.0);
        let mut w = 0.0;
        for (i, f) in line.iter().enumerate() {
            w += f.0;
            if i + 1 < line.len() {
                w += f.1;
            } else {
                w += f.2;
            }
        }
        cost += p.nline_penalty as f64;
        if w > target {
            cost += (w - target) * p.overflow_penalty as f64;
        } else if k + 1 < n {
            cost += (target - w) * (target - w);
        } else if line.len() == 1 && w < target / p.short_last_line_fraction as f64 {
            cost += p.short_last_line_penalty as f64;
        }
        if line[line.len() - 1].2 > 0.0 {
            cost += p.hyphen_penalty as f64;
        }
    }
    cost
}

/// C10's domain: every ESC begins a well-formed sequence — CSI (ESC [ ... final byte
/// in @..~) or OSC (ESC ] ... BEL or ESC \).  Texts outside it (truncated or unpaired
/// sequences) are still measured, as noise, but no value is pinned for them.
fn escapes_well_formed(t: &str) -> bool {
    let mut chars = t.chars();
    while let Some(ch) = chars.next() {
        if ch != '\u{1b}' {
            continue;
        }
        match chars.next() {
            Some('[') => {
                if !chars.by_ref().any(|c| ('\u{40}'..='\u{7e}').contains(&c)) {
                    return false;
                }
            }
            Some(']') => {
                let mut prev = ']';
                let mut closed = false;
                for c in chars.by_ref() {
                    if c == '\u{7}' || (prev == '\u{1b}' && c == '\\') {
                        closed = true;
                        break;
                    }
                    prev = c;
                }
                if !closed {
                    return false;
                }
            }
            _ => return false,
        }
    }
    true
}

fn builtin(o: &Opt) -> bool {
    !o.uses_callbacks()
}

/// Executes one call on `buf` (caller-owned storage holding the text).
fn execute(c: &Call, buf: &str, inplace: Option<&mut String>, texts: &[String]) -> Outcome {
    let o = c.opt.build();
    let nofault = c.fault_at < 0;
    let mut obs: Vec<(&'static str, String)> = Vec::new();
    let full = match c.kind {
        Kind::DisplayWidth => {
            let v = format!("{}", display_width(buf));
            if escapes_well_formed(buf) {
                obs.push(("C10", v.clone()));
            }
            v
        }
        Kind::FindWords => {
            let words: Vec<Word<'_>> = pull_held(o.word_separator.find_words(buf), c, texts);
            let v = words_repr(&words);
            if c.opt.sep < 2 {
                obs.push(("C11", v.clone()));
            }
            v
        }
        Kind::Words => {
            let split: Vec<Word<'_>> = if c.hold.is_some() {
                // streamed: both lazy iterators (find_words inside split_words) are held
                pull_held(split_words(o.word_separator.find_words(buf), &o.word_splitter), c, texts)
            } else {
                let words: Vec<Word<'_>> = o.word_separator.find_words(buf).collect();
                split_words(words, &o.word_splitter).collect()
            };
            let broken = break_words(split, c.opt.width.min(1 << 20));
            let v = words_repr(&broken);
            if c.opt.sep < 2 && nofault {
                obs.push(("C12", v.clone()));
            }
            v
        }
        Kind::Wrap => {
            let lines = wrap(buf, &o);
            let content = lines_content(&lines);
            if builtin(&c.opt) {
                if c.opt.alg == 0 {
                    obs.push(("C07", content.clone()));
                }
                if all_paragraphs_fit(buf, &c.opt) {
                    obs.push(("C05", content.clone()));
                }
            }
            lines_full(buf, &lines)
        }
        Kind::Fill => {
            let v = format!("{:?}", fill(buf, &o));
            if builtin(&c.opt) {
                if c.opt.alg == 0 {
                    obs.push(("C07", v.clone()));
                }
                if all_paragraphs_fit(buf, &c.opt) {
                    obs.push(("C05", v.clone()));
                }
            }
            v
        }
        Kind::Unfill => {
            let (t, uo) = unfill(buf);
            format!("{:?}|{}|{:?}|{:?}|{:?}", t, uo.width, uo.initial_indent, uo.subsequent_indent, uo.line_ending)
        }
        Kind::Refill => format!("{:?}", refill(buf, &o)),
        Kind::FillInplace => {
            let s = inplace.expect("fill_inplace needs a mutable buffer");
            let before = s.as_ptr() as usize;
            fill_inplace(s, c.opt.width);
            obs.push(("C17", format!("{:?}", s)));
            format!("{:?}|same_alloc={}", s, before == s.as_ptr() as usize)
        }
        Kind::Indent => {
            let v = format!("{:?}", indent(buf, INDENTS[c.opt.ii as usize]));
            obs.push(("C19", v.clone()));
            v
        }
        Kind::Dedent => {
            let v = format!("{:?}", dedent(buf));
            obs.push(("C18", v.clone()));
            v
        }
        Kind::WrapColumns => {
            let total = c.opt.width.min(60);
            let cols = 1 + (c.opt.ii as usize % 3);
            format!("{:?}", wrap_columns(buf, cols, total, INDENTS[c.opt.si as usize], " | ", "|"))
        }
        Kind::Fragments => {
            let words: Vec<Word<'_>> = o.word_separator.find_words(buf).collect();
            let w = c.opt.width.min(1 << 20) as f64;
            let lws4 = [w / 2.0, w / 3.0, w, w * 0.75];
            let ff = shape(&wrap_first_fit(&words, &lws4));
            if c.opt.sep < 2 {
                obs.push(("C07", format!("ff4[{ff}]")));
            }
            #[cfg(not(feature = "full"))]
            let of = String::from("n/a");
            #[cfg(feature = "full")]
            let of = {
                // C03's domain: integer widths, at most two distinct line widths, default penalties
                let lws2 = [(w / 2.0).floor(), w];
                let pen = penalties_of(&c.opt);
                let of2 = match wrap_optimal_fit(&words, &lws2, &pen) {
                    Ok(ls) => {
                        let cost = arrangement_cost(&ls, &lws2, &pen);
                        if c.opt.sep < 2 {
                            obs.push(("C03", format!("cost={cost:?}")));
                        }
                        format!("{} cost={cost:?}", shape(&ls))
                    }
                    Err(_) => "overflow".into(),
                };
                of2
            };
            format!("ff4[{ff}] of2[{of}]")
        }
        Kind::OptimalFit4 => {
            // optimal-fit on four line widths, on its own: one optimal-fit call per
            // step, so that no second call inside the same step tidies up after the first
            let words: Vec<Word<'_>> = o.word_separator.find_words(buf).collect();
            let w = c.opt.width.min(1 << 20) as f64;
            let lws4 = [w / 2.0, w / 3.0, w, w * 0.75];
            #[cfg(not(feature = "full"))]
            let of4 = {
                let _ = (&words, &lws4);
                String::from("n/a")
            };
            #[cfg(feature = "full")]
            let of4 = match wrap_optimal_fit(&words, &lws4, &penalties_of(&c.opt)) {
                Ok(ls) => shape(&ls),
                Err(_) => "overflow".into(),
            };
            format!("of4[{of4}]")
        }
        Kind::CustomFragments => {
            // fragment sizes come from the text's words; `ii` scales them, `si` scales the
            // line widths (1e155 squared is not finite: the documented OverflowError path)
            let scale = [1.0, 0.5, 3.0, 1e100, 1e200][c.opt.ii as usize % 5];
            let lw_scale = [1.0, 1.0, 2.0, 1e155, 1e300][c.opt.si as usize % 5];
            let frags: Vec<UserFragment> = WordSeparator::AsciiSpace
                .find_words(buf)
                .map(|w| UserFragment {
                    width: Fragment::width(&w) * scale,
                    whitespace: w.whitespace.len() as f64 * scale,
                    // (inside C03's domain — unscaled widths — no penalty widths: the property
                    // requires them not to exceed the width of the fragment that follows)
                    penalty: if w.word.ends_with('-') || (scale == 1.0 && lw_scale == 1.0) { 0.0 } else { scale.min(1.0) },
                })
                .collect();
            let w = c.opt.width.min(1 << 20) as f64 * lw_scale;
            let lws = [w / 2.0, w / 3.0, w, w * 0.75];
            #[cfg(not(feature = "full"))]
            let of = String::from("n/a");
            // With unscaled (integer) fragment and line widths the call is inside C03's
            // domain: then it is made on two integer line widths under one of the four
            // penalty settings, and the cost of what comes back is the pinned value.
            // (One optimal-fit call per step either way.)
            #[cfg(feature = "full")]
            let of = if scale == 1.0 && lw_scale == 1.0 {
                let vals: Vec<(f64, f64, f64)> = frags.iter().map(|f| (f.width, f.whitespace, f.penalty)).collect();
                let lws2 = [(w / 2.0).floor(), w];
                let pen = penalties_of(&c.opt);
                match wrap_optimal_fit(&frags, &lws2, &pen) {
                    Ok(ls) => {
                        let mut at = 0;
                        let lines: Vec<Vec<(f64, f64, f64)>> = ls
                            .iter()
                            .map(|l| {
                                let v = vals[at.min(vals.len())..(at + l.len()).min(vals.len())].to_vec();
                                at += l.len();
                                v
                            })
                            .collect();
                        let total: usize = ls.iter().map(|l| l.len()).sum();
                        let cost = if total == vals.len() { cost_of(&lines, &lws2, &pen) } else { -1.0 };
                        if nofault {
                            obs.push(("C03", format!("ucost={cost:?}")));
                        }
                        format!("{} ucost={cost:?}", shape(&ls))
                    }
                    Err(_) => String::from("overflow"),
                }
            } else {
                match wrap_optimal_fit(&frags, &lws, &Penalties::new()) {
                    Ok(ls) => shape(&ls),
                    Err(_) => String::from("overflow"),
                }
            };
            let ff = shape(&wrap_first_fit(&frags, &lws));
            if nofault {
                obs.push(("C07", format!("ffu[{ff}]")));
            }
            format!("of[{of}] ff[{ff}]")
        }
        Kind::AlgWrap => {
            // `WrapAlgorithm::wrap` called directly with one to five usize widths
            // (through `wrap()` it only ever sees two)
            let words: Vec<Word<'_>> = o.word_separator.find_words(buf).collect();
            let w = c.opt.width.min(1 << 40);
            let all = [w, w / 2, w.saturating_add(7), w / 3, w.saturating_mul(2)];
            let n = 1 + (c.opt.ii as usize + c.opt.si as usize) % 5;
            let v = format!("n={n} [{}]", shape(&o.wrap_algorithm.wrap(&words, &all[..n])));
            if c.opt.alg == 0 && c.opt.sep < 2 {
                obs.push(("C07", v.clone()));
            }
            v
        }
    };
    Outcome { full, obs, nested: None }
}

fn arm(c: &Call, texts: &[String]) {
    COUNTDOWN.with(|cd| cd.set(c.fault_at));
    REENTER_OUT.with(|o| *o.borrow_mut() = None);
    REENTER.with(|r| {
        *r.borrow_mut() = match (&c.nested, c.reenter_at >= 0) {
            (Some(nc), true) => texts.get(nc.text).map(|t| (c.reenter_at, (**nc).clone(), t.clone())),
            _ => None,
        }
    });
}
fn disarm(mut out: Outcome) -> Outcome {
    COUNTDOWN.with(|cd| cd.set(-1));
    REENTER.with(|r| *r.borrow_mut() = None);
    out.nested = REENTER_OUT.with(|o| o.borrow_mut().take()).map(Box::new);
    out
}
/// One call as a caller makes it: arm the fault, call, catch an unwind.
/// `storage` is the caller-owned buffer holding the text.
fn run_call(c: &Call, storage: &mut String, texts: &[String]) -> Outcome {
    arm(c, texts);
    let r = std::panic::catch_unwind(std::panic::AssertUnwindSafe(|| {
        if c.kind == Kind::FillInplace {
            let copy_of_text = storage.clone(); // `buf` argument is unused by this kind
            execute(c, &copy_of_text, Some(storage), texts)
        } else {
            execute(c, storage.as_str(), None, texts)
        }
    }));
    disarm(finish(r))
}
/// Same, directly on a shared `&str` (no copy): several threads hand the library the very same bytes.
fn run_call_shared(c: &Call, text: &str, texts: &[String]) -> Outcome {
    debug_assert!(c.kind != Kind::FillInplace);
    arm(c, texts);
    let r = std::panic::catch_unwind(std::panic::AssertUnwindSafe(|| execute(c, text, None, texts)));
    disarm(finish(r))
}
/// A call made while another call of the same thread is in progress (see `Call::nested`).
/// Leaves the outer call's armed fault as it found it.
fn run_nested(c: &Call, storage: &mut String, texts: &[String]) -> Outcome {
    let saved = COUNTDOWN.with(|cd| cd.replace(-1));
    let r = std::panic::catch_unwind(std::panic::AssertUnwindSafe(|| {
        if c.kind == Kind::FillInplace {
            let copy_of_text = storage.clone();
            execute(c, &copy_of_text, Some(storage), texts)
        } else {
            execute(c, storage.as_str(), None, texts)
        }
    }));
    COUNTDOWN.with(|cd| cd.set(saved));
    finish(r)
}
fn finish(r: std::thread::Result<Outcome>) -> Outcome {
    match r {
        Ok(o) => o,
        Err(e) => {
            let msg = e
                .downcast_ref::<&str>()
                .map(|s| s.to_string())
                .or_else(|| e.downcast_ref::<String>().cloned())
                .unwrap_or_else(|| "?".into());
            // A panic is a result like any other: a deterministic one (the pinned
            // wrap_columns underflow, an injected fault) is the same string on every
            // execution of its key.  Pinned values exist only for calls that returned.
            Outcome { full: format!("PANIC:{msg}"), obs: Vec::new(), nested: None }
        }
    }
}
/// The value compared for `prop` ("ALL": the full result; a call that panicked
/// is compared by its panic message under every property that observes its kind
/// and domain — a library panic that appears in one execution and not in another
/// is a disagreement on the pinned value).
fn observed(prop: &str, c: &Call, out: &Outcome) -> Option<String> {
    if prop == "ALL" {
        return Some(out.full.clone());
    }
    if let Some((_, v)) = out.obs.iter().find(|(p, _)| *p == prop) {
        return Some(v.clone());
    }
    if out.full.starts_with("PANIC:") && !out.full.contains(INJECTED) && kinds_of(prop).contains(&c.kind) && c.fault_at < 0 && builtin(&c.opt) {
        return Some(out.full.clone());
    }
    None
}

// ===========================================================================
// Generation.
const VOCAB: [&str; 28] = [
    "a", "to", "the", "quick", "brown-fox", "self-contained", "state-of-the-art", "x-", "-y", "ccc-",
    "supercalifragilistic", "犬も歩けば", "棒", "😂😍", "e\u{301}", "zero\u{200b}width", "soft\u{ad}hyphen",
    "nb\u{a0}sp", "\u{1b}[31mred\u{1b}[0m", "\u{1b}]8;;http://e.org\u{1b}\\link\u{1b}]8;;\u{1b}\\", ">", "*",
    "\u{ff28}", "tab\there", "(", ")", "foo.bar", "1,000",
];
const SEPS: [&str; 9] = [" ", " ", " ", "  ", "   ", "\n", "\n\n", "\r\n", "\n  "];

/// An indented block, the shape `dedent`/`indent` (and `unfill`) are about: lines
/// that share a margin of spaces and/or tabs, some with extra indentation, and
/// whitespace-only lines of every kind — empty, shorter than the margin, exactly
/// the margin, longer, or made of the other whitespace character.
fn gen_block(rng: &mut Rng) -> String {
    let margins = ["", "  ", "    ", "\t", "  \t", "\t  ", "        "];
    let margin = margins[rng.below(margins.len())];
    let extras = ["", "", "  ", "    ", "\t"];
    let ending = if rng.chance(1, 5) { "\r\n" } else { "\n" };
    let mut s = String::new();
    let n = 2 + rng.below(7);
    for i in 0..n {
        if rng.chance(1, 3) {
            match rng.below(5) {
                0 => {}
                1 => s.push_str(&margin[..margin.len() / 2]),
                2 => s.push_str(margin),
                3 => {
                    s.push_str(margin);
                    s.push_str("  ");
                }
                _ => s.push_str(if margin.starts_with('\t') { "    " } else { "\t" }),
            }
        } else {
            s.push_str(margin);
            s.push_str(extras[rng.below(extras.len())]);
            s.push_str(VOCAB[rng.below(VOCAB.len())]);
            if rng.chance(1, 3) {
                s.push(' ');
                s.push_str(VOCAB[rng.below(VOCAB.len())]);
            }
            if rng.chance(1, 6) {
                s.push_str("  ");
            }
        }
        if i + 1 < n || rng.chance(1, 2) {
            s.push_str(ending);
        }
    }
    s
}

fn gen_text(rng: &mut Rng) -> String {
    if rng.chance(1, 5) {
        return gen_block(rng);
    }
    let n = rng.below(14);
    let mut s = String::new();
    if rng.chance(1, 5) {
        s.push_str(INDENTS[rng.below(INDENTS.len())]);
    }
    for i in 0..n {
        if i > 0 {
            s.push_str(SEPS[rng.below(SEPS.len())]);
        }
        s.push_str(VOCAB[rng.below(VOCAB.len())]);
    }
    if rng.chance(1, 4) {
        s.push_str(SEPS[rng.below(SEPS.len())]);
    }
    s
}
/// A text that differs from `base` in ONE respect (the same idea as the
/// one-component-changed calls, applied to the text argument): same visible text
/// with different ANSI decoration, one word swapped for another of the same byte
/// length, or the same long prefix with a different tail.
fn variant_of(base: &str, rng: &mut Rng) -> String {
    let strip = |t: &str| -> String {
        let mut out = String::new();
        let mut chars = t.chars().peekable();
        while let Some(ch) = chars.next() {
            if ch == '\u{1b}' {
                match chars.next() {
                    Some('[') => {
                        for c in chars.by_ref() {
                            if ('\u{40}'..='\u{7e}').contains(&c) {
                                break;
                            }
                        }
                    }
                    Some(']') => {
                        let mut prev = ' ';
                        for c in chars.by_ref() {
                            if c == '\u{7}' || (prev == '\u{1b}' && c == '\\') {
                                break;
                            }
                            prev = c;
                        }
                    }
                    _ => {}
                }
            } else {
                out.push(ch);
            }
        }
        out
    };
    match rng.below(8) {
        5 | 6 => {
            // an EXTENSION of the text: it continues where `base` stopped (after a space,
            // after several, or in the middle of its last word) — state remembered about
            // a text must not be applied to a longer text that merely starts with it
            let tails = [" ", "  ", " a", "z", " to be", "-"];
            let tail = if rng.chance(1, 3) { VOCAB[rng.below(VOCAB.len())] } else { tails[rng.below(tails.len())] };
            format!("{base}{tail}")
        }
        7 => {
            // a TRUNCATION at an arbitrary character boundary: the text may now end in the
            // middle of a word, of a line ending or of an escape sequence (the library is
            // total over such texts; for display_width they are outside C10's domain and
            // serve as noise)
            let cuts: Vec<usize> = base.char_indices().map(|(i, _)| i).collect();
            if cuts.len() < 2 {
                return format!("{base}\u{1b}[3");
            }
            base[..cuts[1 + rng.below(cuts.len() - 1)]].to_string()
        }
        0 => strip(base),
        1 | 2 => {
            // (re)decorate one word: same visible text, different escape sequences
            let plain = strip(base);
            // word starts: positions where a non-space follows a space or the start
            let starts: Vec<usize> = plain
                .char_indices()
                .filter(|(i, c)| !c.is_whitespace() && (*i == 0 || plain[..*i].chars().last().map_or(true, |p| p.is_whitespace())))
                .map(|(i, _)| i)
                .collect();
            if starts.is_empty() {
                return plain;
            }
            let s0 = starts[rng.below(starts.len())];
            let e0 = plain[s0..].find(char::is_whitespace).map_or(plain.len(), |o| s0 + o);
            let codes = ["\u{1b}[31m", "\u{1b}[1;32m", "\u{1b}[38;5;196m", "\u{1b}]8;;http://x.y\u{1b}\\"];
            let ends = ["\u{1b}[0m", "\u{1b}[m", "\u{1b}[39m", "\u{1b}]8;;\u{1b}\\"];
            let k = rng.below(codes.len());
            format!("{}{}{}{}{}", &plain[..s0], codes[k], &plain[s0..e0], ends[k], &plain[e0..])
        }
        3 => {
            // swap one vocabulary word for another of the same byte length
            for _ in 0..8 {
                let w = VOCAB[rng.below(VOCAB.len())];
                if let Some(pos) = base.find(w) {
                    let same: Vec<&&str> = VOCAB.iter().filter(|v| v.len() == w.len() && **v != w).collect();
                    if !same.is_empty() {
                        let r = same[rng.below(same.len())];
                        return format!("{}{}{}", &base[..pos], r, &base[pos + w.len()..]);
                    }
                }
            }
            format!("{base} a")
        }
        _ => {
            // same prefix, different tail of the same byte length where possible
            let tail = VOCAB[rng.below(VOCAB.len())];
            match base.rfind(' ') {
                Some(p) => format!("{} {}", &base[..p], tail),
                None => format!("{base} {tail}"),
            }
        }
    }
}
fn gen_texts(rng: &mut Rng, n: usize) -> Vec<String> {
    let mut texts: Vec<String> = (0..n).map(|_| gen_text(rng)).collect();
    // up to five near-duplicates of texts already in the pool (or of each other: chains)
    for _ in 0..rng.below(6) {
        let base = texts[rng.below(texts.len())].clone();
        texts.push(variant_of(&base, rng));
    }
    texts
}
fn gen_opt(rng: &mut Rng, callbacks: bool) -> Opt {
    let pick = |rng: &mut Rng| if callbacks && rng.chance(1, 2) { 2 + rng.below(2) as u8 } else { rng.below(2) as u8 };
    let mut o = Opt {
        width: WIDTHS[rng.below(WIDTHS.len())],
        alg: pick(rng),
        sep: pick(rng),
        split: pick(rng),
        bw: rng.chance(1, 2),
        ii: rng.below(INDENTS.len()) as u8,
        si: rng.below(INDENTS.len()) as u8,
        crlf: rng.chance(1, 4),
    };
    if callbacks && !o.uses_callbacks() {
        o.split = 2 + rng.below(2) as u8;
    }
    o
}
fn gen_call_of_kind(rng: &mut Rng, kind: Kind, n_texts: usize) -> Call {
    let takes_callbacks = matches!(kind, Kind::Wrap | Kind::Fill | Kind::Refill | Kind::Words | Kind::FindWords | Kind::WrapColumns | Kind::AlgWrap);
    let callbacks = takes_callbacks && rng.chance(1, 3);
    let opt = gen_opt(rng, callbacks && kind != Kind::WrapColumns);
    let fault_at = if opt.uses_callbacks() && matches!(kind, Kind::Wrap | Kind::Fill | Kind::Refill | Kind::Words | Kind::FindWords | Kind::AlgWrap) && rng.chance(1, 2) {
        rng.below(6) as i64
    } else if kind == Kind::CustomFragments && rng.chance(1, 3) {
        // early (while the library first visits the fragments) or late (inside the search)
        if rng.chance(1, 2) {
            rng.below(12) as i64
        } else {
            rng.below(90) as i64
        }
    } else {
        -1
    };
    Call::plain(kind, rng.below(n_texts), opt, fault_at)
}
/// A call inside `prop`'s domain (built-in options, no fault; for C05 a width the text fits).
fn gen_call_in_domain(rng: &mut Rng, prop: &str, texts: &[String]) -> Call {
    let ks = kinds_of(prop);
    let kind = ks[rng.below(ks.len())];
    let mut c = gen_call_of_kind(rng, kind, texts.len());
    if prop == "ALL" {
        return c;
    }
    c.fault_at = -1;
    c.opt.alg %= 2;
    c.opt.sep %= 2;
    if prop != "C12" {
        c.opt.split %= 2;
    } else if rng.chance(1, 3) {
        c.opt.split = 2 + rng.below(2) as u8; // C12 covers custom splitters
    }
    if prop == "C07" {
        c.opt.alg = 0;
    }
    if prop == "C03" && kind == Kind::CustomFragments {
        // unscaled fragment widths and line widths (see `execute`)
        c.opt.ii = [0, 5][rng.below(2)];
        c.opt.si = [0, 1, 5, 6][rng.below(4)];
    }
    if prop == "C05" {
        // the smallest fitting width, a little above it, or unlimited
        let mut need = 0usize;
        let mut first = true;
        for par in texts[c.text].split(c.opt.line_ending()) {
            let ind = if first { INDENTS[c.opt.ii as usize] } else { INDENTS[c.opt.si as usize] };
            first = false;
            need = need.max(display_width(par) + display_width(ind));
        }
        c.opt.width = match rng.below(5) {
            0 => need,
            1 => need + 1,
            2 => need + rng.below(8),
            3 => texts[c.text].len() + 8, // beyond the byte length: the shortcut path
            _ => usize::MAX,
        };
    }
    c
}

#[derive(Clone, Debug)]
enum Step {
    /// worker makes the call; `storage` 0..=3: the worker's own reusable buffer
    /// (same address, new contents); 100: the run-wide shared copy of the text
    /// (same address on every thread); 101: a fresh allocation. +1000: the call is
    /// made with the thread's long-lived `Options` object (see `Opt::build`).
    Call { worker: usize, storage: usize, call: Call },
    /// worker exits (its thread-locals are destroyed) and is respawned.
    Restart { worker: usize },
}

fn gen_steps(rng: &mut Rng, prop: &str, texts: &[String], workers: usize, len: usize) -> Vec<Step> {
    let n_texts = texts.len();
    let mut steps: Vec<Step> = Vec::new();
    let mut issued: Vec<Call> = Vec::new();
    let mut last_worker = 0;
    let mut last_armed = false;
    for _ in 0..len {
        let mut worker = rng.below(workers);
        if rng.chance(1, 12) {
            steps.push(Step::Restart { worker });
            continue;
        }
        // Right after a call in which caller code was armed to panic, half of the
        // time the same thread repeats an earlier fault-free call: the comparison
        // "same arguments, before and after a caught fault on this thread".
        if last_armed && rng.chance(1, 4) {
            // ... or simply RETRIES the call that failed, this time without the fault
            if let Some(Step::Call { call: failed, .. }) = steps.last() {
                let mut call = failed.alone();
                call.fault_at = -1;
                call.hold = None;
                issued.push(call.clone());
                let storage = [0, 1, 101][rng.below(3)];
                steps.push(Step::Call { worker: last_worker, storage, call });
                last_armed = false;
                continue;
            }
        }
        if last_armed && rng.chance(1, 2) {
            let clean: Vec<&Call> = issued.iter().filter(|c| c.fault_at < 0).collect();
            if !clean.is_empty() {
                let call = clean[rng.below(clean.len())].clone();
                let storage = [0, 1, 101][rng.below(3)];
                steps.push(Step::Call { worker: last_worker, storage, call });
                last_armed = false;
                continue;
            }
        }
        // 3/8 repeat an earlier call of this run (something to compare), 2/8 are an
        // earlier call with exactly ONE argument component changed (a memo keyed on
        // too few components answers these wrongly; half of them go to the thread
        // that made the previous call), 3/8 are new: half of those drawn inside the
        // property's domain, half over all entry points (the noise that perturbs state).
        let draw = rng.below(8);
        let call = if !issued.is_empty() && draw < 3 {
            issued[rng.below(issued.len())].clone()
        } else if !issued.is_empty() && draw < 5 {
            let mut c = issued[rng.below(issued.len())].clone();
            match rng.below(9) {
                0 => c.opt.width = WIDTHS[rng.below(WIDTHS.len())],
                1 => c.opt.crlf = !c.opt.crlf,
                2 => c.opt.bw = !c.opt.bw,
                // built-in 0 <-> 1, custom A <-> custom B
                3 => c.opt.alg ^= 1,
                4 => c.opt.sep ^= 1,
                5 => c.opt.split ^= 1,
                6 => c.opt.ii = rng.below(INDENTS.len()) as u8,
                7 => c.opt.si = rng.below(INDENTS.len()) as u8,
                _ => c.text = rng.below(n_texts),
            }
            if !c.opt.uses_callbacks() && c.kind != Kind::CustomFragments {
                c.fault_at = -1;
            }
            if rng.chance(1, 2) {
                worker = last_worker % workers;
            }
            issued.push(c.clone());
            c
        } else {
            let c = if rng.chance(1, 2) {
                gen_call_in_domain(rng, prop, texts)
            } else {
                let kind = KINDS[rng.below(KINDS.len())];
                gen_call_of_kind(rng, kind, n_texts)
            };
            issued.push(c.clone());
            c
        };
        let storage = match rng.below(8) {
            0..=4 => rng.below(2), // mostly buffers 0/1: maximise same-address reuse
            5 => 2 + rng.below(2),
            6 => 100,
            _ => 101,
        };
        // one call in five is made with the thread's long-lived Options object (+1000)
        let storage = if rng.chance(1, 5) { storage + 1000 } else { storage };
        let mut call = call;
        // A second call by the same thread while this one is in progress. It is an
        // earlier fault-free built-in call of the run (so that it has executions to be
        // compared with) or a new one in the property's domain.
        let nested_call = |rng: &mut Rng, issued: &mut Vec<Call>| -> Option<Box<Call>> {
            let ok = |c: &Call| c.fault_at < 0 && !c.opt.uses_callbacks() && c.kind != Kind::CustomFragments;
            let clean: Vec<&Call> = issued.iter().filter(|c| ok(c)).collect();
            if !clean.is_empty() && rng.chance(2, 3) {
                return Some(Box::new(clean[rng.below(clean.len())].clone()));
            }
            let c = gen_call_in_domain(rng, prop, texts);
            if !ok(&c) {
                return None;
            }
            issued.push(c.clone());
            Some(Box::new(c))
        };
        if matches!(call.kind, Kind::FindWords | Kind::Words) && rng.chance(1, 3) {
            // the caller keeps the lazy iterator(s) alive across another call, or drops them undrained
            call.hold = Some(Hold { pulls: rng.below(4), drop_early: rng.chance(1, 4) });
            if rng.chance(3, 4) {
                call.nested = nested_call(rng, &mut issued);
            }
        } else if (call.opt.uses_callbacks() || call.kind == Kind::CustomFragments) && call.kind != Kind::Unfill && rng.chance(1, 4) {
            // re-entrancy: caller-supplied code calls the library at its k-th invocation
            call.nested = nested_call(rng, &mut issued);
            if call.nested.is_some() {
                // early (while the library first visits what it was given) or late (deep
                // inside its work, when it has state of its own pending)
                call.reenter_at = if rng.chance(1, 2) { rng.below(5) as i64 } else { rng.below(90) as i64 };
            }
        }
        last_worker = worker;
        last_armed = call.fault_at >= 0;
        steps.push(Step::Call { worker, storage, call });
    }
    steps
}

struct RunPlan {
    texts: Arc<Vec<String>>,
    workers: usize,
    steps: Vec<Step>,
}
/// Run r of the batch: its parameters come from a per-run PRNG split off the batch
/// PRNG, so one run can be regenerated without executing its predecessors.
fn plan_runs(seed: u64, runs: u64, prop: &str) -> Vec<RunPlan> {
    let mut rng = Rng::new(seed ^ fnv(prop));
    (0..runs)
        .map(|_| {
            let mut rr = Rng::new(rng.next());
            let n_texts = 2 + rr.below(5);
            let texts = gen_texts(&mut rr, n_texts);
            let workers = 1 + rr.below(4);
            let len = 4 + rr.below(36);
            let steps = gen_steps(&mut rr, prop, &texts, workers, len);
            RunPlan { texts: Arc::new(texts), workers, steps }
        })
        .collect()
}

// ===========================================================================
// Caller threads.
enum Cmd {
    Run { storage: usize, call: Call },
    Quit,
}
struct Worker {
    tx: mpsc::Sender<Cmd>,
    rx: mpsc::Receiver<(Outcome, u64)>,
    handle: Option<std::thread::JoinHandle<()>>,
}
fn spawn_worker(shared: Arc<Vec<String>>) -> Worker {
    let (tx, crx) = mpsc::channel::<Cmd>();
    let (rtx, rx) = mpsc::channel::<(Outcome, u64)>();
    let handle = std::thread::spawn(move || {
        // Caller-owned reusable storage: fixed capacity so that successive texts
        // land at the same address.
        let mut bufs: Vec<String> = (0..4).map(|_| String::with_capacity(1024)).collect();
        while let Ok(cmd) = crx.recv() {
            match cmd {
                Cmd::Quit => break,
                Cmd::Run { storage, call } => {
                    let before = TICKS.with(|t| t.get());
                    REUSE_OPTIONS.with(|r| r.set(storage >= 1000));
                    let storage = storage % 1000;
                    let out = match storage {
                        0..=3 => {
                            let b = &mut bufs[storage];
                            b.clear();
                            b.push_str(&shared[call.text]);
                            run_call(&call, b, &shared)
                        }
                        100 if call.kind != Kind::FillInplace => run_call_shared(&call, shared[call.text].as_str(), &shared),
                        _ => {
                            let mut fresh = shared[call.text].clone();
                            run_call(&call, &mut fresh, &shared)
                        }
                    };
                    REUSE_OPTIONS.with(|r| r.set(false));
                    let ticks = TICKS.with(|t| t.get()) - before;
                    if rtx.send((out, ticks)).is_err() {
                        break;
                    }
                }
            }
        }
    });
    Worker { tx, rx, handle: Some(handle) }
}

// ===========================================================================
// Hot pass.
#[derive(Default)]
struct Stats {
    runs: u64,
    calls: u64,
    in_domain_executions: u64,
    distinct_keys: u64,
    keys_executed_2plus: u64,
    keys_in_2plus_contexts: u64,
    keys_on_2plus_threads: u64,
    keys_in_2plus_storages: u64,
    keys_before_and_after_fault: u64,
    buffer_reuses_new_contents: u64,
    shared_buffer_calls: u64,
    calls_with_reused_options_object: u64,
    worker_restarts: u64,
    faults_armed: u64,
    faults_fired: u64,
    calls_after_fault_same_thread: u64,
    callback_invocations: u64,
    distinct_call_orders: u64,
    iterators_held_then_drained: u64,
    iterators_dropped_undrained: u64,
    calls_made_while_iterator_held: u64,
    reentrant_calls_from_caller_code: u64,
}
struct Seen {
    value: String,
    first: String,
    execs: u64,
    threads: BTreeSet<usize>,
    storages: BTreeSet<usize>,
    post_fault: BTreeSet<bool>,
    contexts: BTreeSet<(u64, usize, usize, bool)>,
}
struct Mismatch {
    key: String,
    first: String,
    first_value: String,
    second: String,
    second_value: String,
    run: u64,
    upto: usize,
}

fn execute_run(
    prop: &str,
    plan: &RunPlan,
    keep: Option<&[usize]>,
    run: u64,
    seen: &mut BTreeMap<String, Seen>,
    stats: &mut Stats,
) -> Result<(), Mismatch> {
    let texts = &plan.texts;
    let workers = plan.workers;
    let idx: Vec<usize> = match keep {
        Some(k) => k.iter().copied().filter(|i| *i < plan.steps.len()).collect(),
        None => (0..plan.steps.len()).collect(),
    };
    let mut pool: Vec<Worker> = (0..workers).map(|_| spawn_worker(texts.clone())).collect();
    let mut last_in_buf: BTreeMap<(usize, usize), usize> = BTreeMap::new();
    let mut faulted: Vec<bool> = vec![false; workers];
    let mut result = Ok(());
    for (pos, &i) in idx.iter().enumerate() {
        match &plan.steps[i] {
            Step::Restart { worker } => {
                let w = *worker % workers;
                let _ = pool[w].tx.send(Cmd::Quit);
                if let Some(h) = pool[w].handle.take() {
                    let _ = h.join();
                }
                pool[w] = spawn_worker(texts.clone());
                last_in_buf.retain(|(ww, _), _| *ww != w);
                faulted[w] = false;
                stats.worker_restarts += 1;
            }
            Step::Call { worker, storage, call } => {
                let w = *worker % workers;
                // storage code: place of the text (0..=3, 100, 101), +1000 = the thread's long-lived Options object
                let reuse_opts = *storage >= 1000;
                let place = *storage % 1000;
                let place = if place == 100 && call.kind == Kind::FillInplace { 101 } else { place };
                pool[w].tx.send(Cmd::Run { storage: place + if reuse_opts { 1000 } else { 0 }, call: call.clone() }).expect("worker alive");
                if reuse_opts {
                    stats.calls_with_reused_options_object += 1;
                }
                let storage = place + if reuse_opts { 1000 } else { 0 };
                let (out, ticks) = pool[w].rx.recv().expect("worker replied");
                stats.calls += 1;
                stats.callback_invocations += ticks;
                if place < 4 {
                    if let Some(prev) = last_in_buf.insert((w, place), call.text) {
                        if texts[prev] != texts[call.text] {
                            stats.buffer_reuses_new_contents += 1;
                        }
                    }
                }
                if place == 100 {
                    stats.shared_buffer_calls += 1;
                }
                let was_faulted = faulted[w];
                if was_faulted {
                    stats.calls_after_fault_same_thread += 1;
                }
                if call.fault_at >= 0 {
                    stats.faults_armed += 1;
                    if out.full.contains(INJECTED) {
                        stats.faults_fired += 1;
                        faulted[w] = true;
                    }
                }
                if let Some(h) = &call.hold {
                    if h.drop_early {
                        stats.iterators_dropped_undrained += 1;
                    } else {
                        stats.iterators_held_then_drained += 1;
                    }
                }
                // the call itself, then the call nested in it (made earlier in time, but
                // reported second so that a replay reads naturally)
                let mut todo: Vec<(&Call, &Outcome, &'static str)> = vec![(call, &out, "")];
                if let Some(n) = &out.nested {
                    if call.reenter_at >= 0 {
                        stats.reentrant_calls_from_caller_code += 1;
                    } else {
                        stats.calls_made_while_iterator_held += 1;
                    }
                    todo.push((&n.0, &n.1, if call.reenter_at >= 0 { " (nested: made from caller-supplied code inside this step's call)" } else { " (nested: made while this step's iterator was held)" }));
                }
                for (call, out, how) in todo {
                    let Some(value) = observed(prop, call, out) else { continue };
                    stats.in_domain_executions += 1;
                    let key = key_of(call, texts);
                    let here = format!("run {run} step {i} worker {w} storage {storage}{}{how}", if was_faulted { " (thread has caught a fault)" } else { "" });
                    // a nested execution is a context of its own
                    let ctx = (run, w, if how.is_empty() { storage } else { 5000 + i }, was_faulted);
                    match seen.get_mut(&key) {
                        None => {
                            stats.distinct_keys += 1;
                            let mut s = Seen {
                                value,
                                first: here,
                                execs: 1,
                                threads: BTreeSet::new(),
                                storages: BTreeSet::new(),
                                post_fault: BTreeSet::new(),
                                contexts: BTreeSet::new(),
                            };
                            s.threads.insert(w);
                            s.storages.insert(storage);
                            s.post_fault.insert(was_faulted);
                            s.contexts.insert(ctx);
                            seen.insert(key, s);
                        }
                        Some(s) => {
                            s.execs += 1;
                            if s.execs == 2 {
                                stats.keys_executed_2plus += 1;
                            }
                            if s.threads.insert(w) && s.threads.len() == 2 {
                                stats.keys_on_2plus_threads += 1;
                            }
                            if s.storages.insert(storage) && s.storages.len() == 2 {
                                stats.keys_in_2plus_storages += 1;
                            }
                            if s.post_fault.insert(was_faulted) && s.post_fault.len() == 2 {
                                stats.keys_before_and_after_fault += 1;
                            }
                            if s.contexts.insert(ctx) && s.contexts.len() == 2 {
                                stats.keys_in_2plus_contexts += 1;
                            }
                            if s.value != value && result.is_ok() {
                                result = Err(Mismatch {
                                    key,
                                    first: s.first.clone(),
                                    first_value: s.value.clone(),
                                    second: here,
                                    second_value: value,
                                    run,
                                    upto: pos,
                                });
                            }
                        }
                    }
                }
                if result.is_err() {
                    break;
                }
            }
        }
    }
    for w in pool.iter_mut() {
        let _ = w.tx.send(Cmd::Quit);
        if let Some(h) = w.handle.take() {
            let _ = h.join();
        }
    }
    result
}

fn step_line(s: &Step, texts: &[String]) -> String {
    match s {
        Step::Call { worker, storage, call } => {
            let mut l = format!(
                "call worker={worker} storage={storage} kind={:?} fault_at={} opt={:?} text={:?}",
                call.kind, call.fault_at, call.opt, texts[call.text]
            );
            if let Some(h) = &call.hold {
                let _ = write!(l, " [iterator: {} item(s) pulled, then {}]", h.pulls, if h.drop_early { "dropped undrained" } else { "held, later drained" });
            }
            if let Some(nc) = &call.nested {
                let when = if call.reenter_at >= 0 { format!("from caller-supplied code at its invocation {}", call.reenter_at) } else { "while the iterator is held".to_string() };
                let _ = write!(l, "\n         + nested call {when}: kind={:?} opt={:?} text={:?}", nc.kind, nc.opt, texts[nc.text]);
            }
            l
        }
        Step::Restart { worker } => format!("restart worker={worker}"),
    }
}

// ===========================================================================
// Cold pass: every in-domain key once, one thread, fresh allocation per call,
// reverse-sorted key order (an order no hot run uses), run by the driver in a
// fresh process.  `window = (keyhash, n)`: only the n calls preceding that key in
// this order, then the key (n = 0: the lone call in a fresh process).
fn cold_calls(plans: &[RunPlan]) -> Vec<(String, Call, String)> {
    let mut calls: BTreeMap<String, (Call, String)> = BTreeMap::new();
    for p in plans {
        for s in &p.steps {
            if let Step::Call { call, .. } = s {
                calls.entry(key_of(call, &p.texts)).or_insert_with(|| (call.alone(), p.texts[call.text].clone()));
                if let Some(nc) = &call.nested {
                    calls.entry(key_of(nc, &p.texts)).or_insert_with(|| (nc.alone(), p.texts[nc.text].clone()));
                }
            }
        }
    }
    calls.into_iter().rev().map(|(k, (c, t))| (k, c, t)).collect()
}
fn cold_pass(prop: &str, plans: &[RunPlan], window: Option<(String, usize)>) -> Vec<(String, String)> {
    let calls = cold_calls(plans);
    let (from, to) = match &window {
        None => (0, calls.len()),
        Some((kh, n)) => match calls.iter().position(|(k, _, _)| format!("{:016x}", fnv(k)) == *kh) {
            Some(p) => (p.saturating_sub(*n), p + 1),
            None => (0, 0),
        },
    };
    let mut out = Vec::new();
    for (k, call, text) in &calls[from..to] {
        let mut fresh = text.clone();
        let o = run_call(call, &mut fresh, &[]);
        if let Some(v) = observed(prop, call, &o) {
            out.push((k.clone(), v));
        }
    }
    out
}

// ===========================================================================
// Parallel pass (meant for Miri, whose scheduler is a function of -Zmiri-seed and
// preempts INSIDE library calls): 2–3 caller threads free-run overlapping
// in-domain calls on shared buffers; every result must equal what the main thread
// computed before any other thread existed.
fn parallel_pass(prop: &str, seed: u64) -> Result<String, String> {
    let mut rng = Rng::new(seed ^ fnv(prop) ^ 0x5eed);
    // Words for the race workload come from a WIDE alphabet: one to two characters
    // drawn at random from blocks of different display width (0, 1 and 2 columns).
    // Many distinct characters and short words put pressure on any table a call
    // might share with an overlapping call — whatever its size or hash, collisions
    // arrive by birthday — and short words (<= 7 bytes) also fit small-key memos.
    fn wide_char(rng: &mut Rng) -> char {
        let (lo, hi) = match rng.below(10) {
            0 => (0x00C0, 0x024F), // Latin-1 supplement / extended: 1 column
            1 => (0x0370, 0x03FF), // Greek: 1
            2 => (0x0400, 0x04FF), // Cyrillic: 1
            3 => (0x0300, 0x036F), // combining marks: 0
            4 | 5 => (0x4E00, 0x9FFF), // CJK ideographs: 2
            6 => (0xAC00, 0xD7A3), // Hangul syllables: 2
            7 => (0x3041, 0x30FF), // kana: 2
            8 => (0xFF01, 0xFF5E), // fullwidth forms: 2
            _ => (0x1F600, 0x1F64F), // emoticons: 2
        };
        char::from_u32(lo + rng.below((hi - lo + 1) as usize) as u32).unwrap_or('\u{e9}')
    }
    fn wide_word(rng: &mut Rng) -> String {
        let mut w = String::new();
        // one word in eight is long and unbreakable (16-40 bytes): force-breaking, long
        // keys, per-word state that only exists beyond a size threshold
        let long = rng.chance(1, 8);
        for _ in 0..(if long { 8 + rng.below(6) } else { 1 + rng.below(2) }) {
            w.push(wide_char(rng));
        }
        if rng.chance(1, 4) {
            w.insert(0, (b'a' + rng.below(26) as u8) as char);
        }
        w
    }
    let n_texts = 3 + rng.below(2);
    // a text of 66-80 short lines (state kept per line beyond a fixed-size block), where lines are cheap
    let long_text = matches!(prop, "C18" | "C19" | "C10") && rng.chance(1, 3);
    let texts: Arc<Vec<String>> = Arc::new(
        (0..n_texts)
            .map(|t| {
                // short texts: an interpreter executes every instruction of every call
                let mut s = String::new();
                if long_text && t == 0 {
                    for i in 0..(66 + rng.below(15)) {
                        s.push_str(["  a", "    b", "  ", "\t", "  c d", ""][(i + rng.below(2)) % 6]);
                        s.push('\n');
                    }
                    return s;
                }
                // an interpreter executes every instruction of every call: long texts only
                // where a call is cheap (width, indentation, in-place fill)
                // (size thresholds — "only texts over 64 bytes", "only 8 or more fragments" — are
                // a favourite way for shared state to dodge small inputs: every other workload is long)
                // (and a long call overlapping short ones: in every third workload the
                // sizes are mixed within the workload, one text short, the next long)
                // every other workload has one plain printable-ASCII text of 48-80 bytes: an
                // "ASCII-only fast path" next to a general path is the commonest optimisation there is
                if seed % 2 == 0 && t == 1 {
                    let plain = ["a", "to", "the", "quick", "brown", "fox", "jumps", "over", "lazy", "dog", "well-known", "x"];
                    let target = 48 + rng.below(33);
                    while s.len() < target {
                        if !s.is_empty() {
                            s.push(' ');
                        }
                        s.push_str(plain[rng.below(plain.len())]);
                    }
                    return s;
                }
                let n_words = if matches!(prop, "C10" | "C18" | "C19") {
                    8 + rng.below(17)
                } else if (seed % 3 == 0 && t % 2 == 1) || (seed % 3 != 0 && seed % 2 == 1) {
                    10 + rng.below(8)
                } else {
                    3 + rng.below(4)
                };
                for i in 0..n_words {
                    if i > 0 {
                        s.push_str(SEPS[rng.below(SEPS.len())]);
                    }
                    if rng.chance(5, 6) {
                        s.push_str(&wide_word(&mut rng));
                    } else {
                        s.push_str(VOCAB[rng.below(VOCAB.len())]);
                    }
                }
                s
            })
            .collect(),
    );
    let pool: Vec<Call> = (0..3)
        .map(|k| {
            let mut c = gen_call_in_domain(&mut rng, prop, &texts);
            c.text = k % texts.len(); // distinct texts: overlapping calls work on different contents
            if c.kind == Kind::FillInplace || c.opt.width > 40 {
                c.opt.width = [1, 3, 8, 20][rng.below(4)];
            }
            c
        })
        .collect();
    let run_one = |c: &Call, texts: &Arc<Vec<String>>| -> Option<String> {
        let out = if c.kind == Kind::FillInplace {
            let mut own = texts[c.text].clone();
            run_call(c, &mut own, &[])
        } else {
            run_call_shared(c, texts[c.text].as_str(), &[])
        };
        observed(prop, c, &out)
    };
    // The reference values. `--reference-only`: print them and stop (the driver runs
    // this natively in a fresh single-threaded process and hands the hashes to the
    // interpreter runs as `--expect-ref`). Otherwise `--warm 1` computes them on the
    // main thread BEFORE any other thread exists (every lazily filled table or memo
    // the calls touch is then warm when the threads start), `--warm 0` only AFTER all
    // threads have finished (the threads meet the library cold: first-touch races).
    let hash_of = |v: &Option<String>| format!("{:016x}", fnv(v.as_deref().unwrap_or("<none>")));
    if has("--reference-only") {
        let r: Vec<String> = pool.iter().map(|c| hash_of(&run_one(c, &texts))).collect();
        return Ok(format!("REFERENCE {}", r.join(",")));
    }
    let expected: Option<Vec<String>> = arg_val("--expect-ref").map(|e| e.split(',').map(|x| x.to_string()).collect());
    let warm = arg_val("--warm").map_or(true, |w| w != "0");
    let before: Option<Vec<Option<String>>> = if warm { Some(pool.iter().map(|c| run_one(c, &texts)).collect()) } else { None };
    let threads = 2 + rng.below(2);
    // thread t starts with call t (so the first, cache-filling calls of different
    // threads differ and overlap), then draws; in the cold mode all threads start
    // with the SAME call half of the time (two threads meeting the same untouched entry)
    let same_start = !warm && rng.chance(1, 2);
    let plans: Vec<Vec<usize>> = (0..threads)
        .map(|t| (0..5).map(|k| if k == 0 { if same_start { 0 } else { t % pool.len() } } else { rng.below(pool.len()) }).collect())
        .collect();
    let pool = Arc::new(pool);
    let barrier = Arc::new(std::sync::Barrier::new(threads));
    let handles: Vec<_> = plans
        .iter()
        .cloned()
        .map(|plan| {
            let (texts, pool, barrier) = (texts.clone(), pool.clone(), barrier.clone());
            std::thread::spawn(move || {
                barrier.wait();
                plan.iter()
                    .map(|&i| {
                        let c = &pool[i];
                        let out = if c.kind == Kind::FillInplace {
                            let mut own = texts[c.text].clone();
                            run_call(c, &mut own, &[])
                        } else {
                            run_call_shared(c, texts[c.text].as_str(), &[])
                        };
                        (i, out)
                    })
                    .collect::<Vec<_>>()
            })
        })
        .collect();
    let mut execs = 0;
    let mut got: Vec<(usize, usize, Option<String>)> = Vec::new();
    for (t, h) in handles.into_iter().enumerate() {
        for (i, out) in h.join().map_err(|_| "worker panicked outside a library call".to_string())? {
            execs += 1;
            got.push((t, i, observed(prop, &pool[i], &out)));
        }
    }
    let after: Vec<Option<String>> = pool.iter().map(|c| run_one(c, &texts)).collect();
    let report = |t: String, i: usize, what: &str, a: &Option<String>, b: &Option<String>| -> String {
        format!(
            "SCHEDULE-DEPENDENT property={prop} seed={seed} warm={} {t} key={:?}\n  {what} -> {:?}\n  under this interleaving -> {:?}\n  plans={plans:?}",
            warm as u8,
            key_of(&pool[i], &texts),
            a,
            b
        )
    };
    for (t, i, v) in &got {
        if let Some(b) = &before {
            if *v != b[*i] {
                return Err(report(format!("thread={t}"), *i, "before any other thread existed", &b[*i], v));
            }
        }
        if *v != after[*i] {
            return Err(report(format!("thread={t}"), *i, "on the main thread after all threads had finished", &after[*i], v));
        }
        if let Some(e) = &expected {
            if e.get(*i).map_or(false, |h| *h != hash_of(v)) {
                return Err(report(format!("thread={t}"), *i, "alone in a fresh single-threaded process (value hash)", &Some(e[*i].clone()), &Some(format!("{} = {:?}", hash_of(v), v))));
            }
        }
    }
    if let Some(e) = &expected {
        for (i, a) in after.iter().enumerate() {
            if e.get(i).map_or(false, |h| *h != hash_of(a)) {
                return Err(report("main-thread-after-the-race".into(), i, "alone in a fresh single-threaded process (value hash)", &Some(e[i].clone()), &Some(format!("{} = {:?}", hash_of(a), a))));
            }
        }
    }
    Ok(format!(
        "parallel pass: property {prop} seed {seed} warm {} threads {threads} distinct_keys {} concurrent_executions {execs}",
        warm as u8,
        pool.len()
    ))
}

// ===========================================================================
// CLI.
fn arg_val(name: &str) -> Option<String> {
    let a: Vec<String> = std::env::args().collect();
    a.iter().position(|x| x == name).and_then(|i| a.get(i + 1).cloned())
}
fn has(flag: &str) -> bool {
    std::env::args().any(|a| a == flag)
}
fn parse_keep() -> Option<Vec<usize>> {
    arg_val("--keep").map(|k| k.split(',').filter_map(|x| x.parse().ok()).collect())
}

fn main() {
    let mode = std::env::args().nth(1).unwrap_or_default();
    let prop = arg_val("--property").unwrap_or_else(|| "ALL".into());
    if prop != "ALL" && !PROPS.contains(&prop.as_str()) {
        eprintln!("tw_sim: no pinned value is defined for property {prop} (known: {PROPS:?}, or ALL)");
        std::process::exit(2);
    }
    let seed: u64 = arg_val("--seed").and_then(|s| s.parse().ok()).unwrap_or(1);
    let runs: u64 = arg_val("--runs").and_then(|s| s.parse().ok()).unwrap_or(2000);
    std::panic::set_hook(Box::new(|_| {}));
    match mode.as_str() {
        "hot" => {
            let plans = plan_runs(seed, runs, &prop);
            let only: Option<u64> = arg_val("--only-run").and_then(|s| s.parse().ok());
            let keep = parse_keep();
            let expect = arg_val("--expect").and_then(|e| e.split_once(':').map(|(a, b)| (a.to_string(), b.to_string())));
            let mut stats = Stats::default();
            let mut seen: BTreeMap<String, Seen> = BTreeMap::new();
            let mut orders = BTreeSet::new();
            for (r, plan) in plans.iter().enumerate() {
                let r = r as u64;
                if let Some(o) = only {
                    if o != r {
                        continue;
                    }
                }
                stats.runs += 1;
                let k = if only.is_some() { keep.as_deref() } else { None };
                orders.insert(fnv(&format!(
                    "{:?}",
                    plan.steps
                        .iter()
                        .map(|s| match s {
                            Step::Call { worker, call, .. } => (*worker, fnv(&key_of(call, &plan.texts))),
                            Step::Restart { worker } => (*worker, 0),
                        })
                        .collect::<Vec<_>>()
                )));
                if let Err(mm) = execute_run(&prop, plan, k, r, &mut seen, &mut stats) {
                    println!("HISTORY-DEPENDENT property={prop} seed={seed} run={} key={:?}", mm.run, mm.key);
                    println!("  first  ({}) -> {:?}", mm.first, mm.first_value);
                    println!("  second ({}) -> {:?}", mm.second, mm.second_value);
                    println!("  steps of run {} up to the disagreement ({} worker threads):", mm.run, plan.workers);
                    let idx: Vec<usize> = match k {
                        Some(k) => k.to_vec(),
                        None => (0..plan.steps.len()).collect(),
                    };
                    for (n, i) in idx.iter().take(mm.upto + 1).enumerate() {
                        println!("    [{n}] (step {i}) {}", step_line(&plan.steps[*i], &plan.texts));
                    }
                    println!("KEEP {}", idx.iter().take(mm.upto + 1).map(|i| i.to_string()).collect::<Vec<_>>().join(","));
                    std::process::exit(3);
                }
            }
            stats.distinct_call_orders = orders.len() as u64;
            if let Some((kh, vh)) = &expect {
                for (k, s) in &seen {
                    if format!("{:016x}", fnv(k)) == *kh && format!("{:016x}", fnv(&s.value)) != *vh {
                        println!("HISTORY-DEPENDENT property={prop} seed={seed} key={k:?}");
                        println!("  in this history ({}) -> {:?}", s.first, s.value);
                        println!("  alone in a fresh process -> value hash {vh} (dumped below in the replay file)");
                        if let (Some(o), Some(plan)) = (only, only.and_then(|o| plans.get(o as usize))) {
                            println!("  steps of run {o} ({} worker threads):", plan.workers);
                            let idx: Vec<usize> = keep.clone().unwrap_or_else(|| (0..plan.steps.len()).collect());
                            for (n, i) in idx.iter().enumerate() {
                                if let Some(st) = plan.steps.get(*i) {
                                    println!("    [{n}] (step {i}) {}", step_line(st, &plan.texts));
                                }
                            }
                        }
                        std::process::exit(3);
                    }
                }
            }
            println!(
                "STATS property {prop} seed {seed} runs {} calls {} in_domain_executions {} distinct_keys {} keys_executed_2plus {} keys_in_2plus_contexts {} \
                 keys_on_2plus_threads {} keys_in_2plus_storages {} keys_before_and_after_fault {} buffer_reuses_new_contents {} shared_buffer_calls {} calls_with_reused_options_object {} \
                 worker_restarts {} faults_armed {} faults_fired {} calls_after_fault_same_thread {} callback_invocations {} distinct_call_orders {} \
                 iterators_held_then_drained {} iterators_dropped_undrained {} calls_made_while_iterator_held {} reentrant_calls_from_caller_code {} \
                 library_internal_scheduling_points 0",
                stats.runs, stats.calls, stats.in_domain_executions, stats.distinct_keys, stats.keys_executed_2plus, stats.keys_in_2plus_contexts,
                stats.keys_on_2plus_threads, stats.keys_in_2plus_storages, stats.keys_before_and_after_fault, stats.buffer_reuses_new_contents,
                stats.shared_buffer_calls, stats.calls_with_reused_options_object, stats.worker_restarts, stats.faults_armed, stats.faults_fired, stats.calls_after_fault_same_thread,
                stats.callback_invocations, stats.distinct_call_orders,
                stats.iterators_held_then_drained, stats.iterators_dropped_undrained, stats.calls_made_while_iterator_held, stats.reentrant_calls_from_caller_code
            );
            // a few keys that were compared across contexts, written out
            let mut shown = 0;
            for (k, s) in &seen {
                if s.contexts.len() >= 3 && shown < 3 {
                    println!(
                        "SAMPLE key={:?} value={:?} executions={} contexts={:?}",
                        k,
                        s.value,
                        s.execs,
                        s.contexts.iter().map(|(r, w, st, f)| format!("run{r}/thread{w}/storage{st}{}", if *f { "/after-fault" } else { "" })).collect::<Vec<_>>()
                    );
                    shown += 1;
                }
            }
            println!("@@DIGEST@@");
            for (k, s) in &seen {
                println!("{:016x} {:016x}", fnv(k), fnv(&s.value));
            }
            if let Some(h) = arg_val("--dump-key") {
                println!("@@DUMP@@");
                for (k, s) in &seen {
                    if format!("{:016x}", fnv(k)) == h {
                        println!("key    {k}");
                        println!("value  {:?}", s.value);
                        println!("value-hash {:016x}", fnv(&s.value));
                        println!("first-at {}", s.first);
                    }
                }
            }
        }
        "cold" => {
            let plans = plan_runs(seed, runs, &prop);
            let window = arg_val("--window").and_then(|w| w.split_once(':').map(|(k, n)| (k.to_string(), n.parse::<usize>().unwrap_or(0))));
            let out = cold_pass(&prop, &plans, window);
            println!("COLD property {prop} seed {seed} runs {runs} in_domain_keys {}", out.len());
            println!("@@DIGEST@@");
            let sorted: BTreeMap<&String, &String> = out.iter().map(|(k, v)| (k, v)).collect();
            for (k, v) in &sorted {
                println!("{:016x} {:016x}", fnv(k), fnv(v));
            }
            let all = has("--dump-all");
            if let Some(h) = arg_val("--dump-key").or(if all { Some(String::new()) } else { None }) {
                println!("@@DUMP@@");
                for (k, v) in &out {
                    // execution order
                    if all || format!("{:016x}", fnv(k)) == h {
                        println!("key    {k}");
                        println!("value  {v:?}");
                        println!("value-hash {:016x}", fnv(v));
                    }
                }
            }
        }
        "parallel" => match parallel_pass(&prop, seed) {
            Ok(line) => println!("{line}"),
            Err(report) => {
                println!("{report}");
                std::process::exit(3);
            }
        },
        _ => {
            eprintln!(
                "usage: tw_sim hot|cold|parallel --property <C03|C05|C07|C10|C11|C12|C17|C18|C19|ALL> [--seed N] [--runs N]\n\
                 \x20 hot:  [--only-run R [--keep i,j,..]] [--expect <keyhash>:<valuehash>] [--dump-key <keyhash>]\n\
                 \x20 cold: [--window <keyhash>:<n>] [--dump-key <keyhash> | --dump-all]"
            );
            std::process::exit(2);
        }
    }
}
