#!/usr/bin/env bash
# Companion of tools/seeded_matrix.sh for the seeded changes of class
# "seam-race" (wrong only when two calls overlap in time) and for the own seam
# *.miri.diff: the quick tier cannot see them by construction, so this applies
# each one to /repo, runs the Miri pass of the property its author targeted
# (checks/check.py <Cxx> miri with TW_OUT set, i.e. exactly the thorough tier's
# interpreter pass, without touching /verif/evidence), and undoes the patch.
# Writes seeded/races.json. Refuses to start if /repo has uncommitted changes.
set -u
VERIF="$(cd "$(dirname "$0")/.." && pwd)"
[ -z "$(git -C /repo status --porcelain)" ] || { echo "races error: /repo has uncommitted changes"; exit 2; }
trap 'git -C /repo checkout -- . >/dev/null 2>&1; git -C /repo clean -fdq -- src >/dev/null 2>&1' EXIT
OUTDIR="$(mktemp -d /var/tmp/races.XXXXXX)"
ROWS="$OUTDIR/rows.tsv"
run_one() {  # label patch prop
  git -C /repo apply "$2" || { echo "races error: $2 does not apply"; exit 2; }
  local t0=$SECONDS
  TW_OUT="$OUTDIR/out" python3 "$VERIF/checks/check.py" "$3" miri >"$OUTDIR/log" 2>&1; local rc=$?
  local what; what="$(grep -m1 "^$3: " "$OUTDIR/log" | cut -c1-160)"
  echo "$1 $3 exit=$rc $what ($((SECONDS-t0))s)"
  printf '%s\t%s\t%s\t%s\t%s\n' "$1" "$3" "$rc" "$what" "$((SECONDS-t0))" >>"$ROWS"
  git -C /repo checkout -- . >/dev/null 2>&1; git -C /repo clean -fdq -- src
}
# unpatched tree first: the pass must hold for a cheap and an expensive property
TW_OUT="$OUTDIR/out" python3 "$VERIF/checks/check.py" C10 miri >"$OUTDIR/log" 2>&1; echo "unpatched C10 exit=$?"
[ -z "${1:-}" ] || export RACES_MERGE=1
PAT="${1:-}"   # optional pattern: only these seeded changes, merged into seeded/races.json
for d in "$VERIF"/seeded/S*; do
  grep -q '"class": "seam-race"' "$d/meta.json" 2>/dev/null || continue
  [ -z "$PAT" ] || basename "$d" | grep -q "$PAT" || continue
  prop="$(sed -n 's/.*"breaks_property": "\(C[0-9]*\)".*/\1/p' "$d/meta.json" | head -1)"
  run_one "$(basename "$d")" "$d/patch.diff" "$prop"
done
for p in "$VERIF"/tools/premise_audit/selftest/*.miri.diff; do
  [ -z "$PAT" ] || continue
  run_one "own-$(basename "$p" .miri.diff)" "$p" C10
done
python3 - "$ROWS" "$VERIF/seeded/races.json" <<'PY'
import json, sys
rows = [l.rstrip("\n").split("\t") for l in open(sys.argv[1])]
import os
prev = []
if os.environ.get("RACES_MERGE") == "1" and os.path.exists(sys.argv[2]):
    names = {r[0] for r in rows}
    prev = [e for e in json.load(open(sys.argv[2]))["miri_pass_of_the_targeted_property"] if e["change"] not in names]
json.dump({"miri_pass_of_the_targeted_property": prev + [
    {"change": r[0], "property": r[1], "exit": int(r[2]), "violation": r[2] == "1", "summary": r[3], "seconds": int(r[4])} for r in rows]},
    open(sys.argv[2], "w"), indent=1)
PY
rm -rf "$OUTDIR"
