#!/usr/bin/env bash
# Informational only. NOT a check: registered nowhere in MANIFEST.json, decides
# no property, never prints a VIOLATION line.
#
# Re-derives, from /repo's current working tree, the premises on which
# DESIGN.md's verdict ("deterministic simulation with fault injection does not
# apply to any of C01-C20") rests, and prints
#
#   PREMISES-HOLD      exit 0   the tree still looks as DESIGN.md §1 describes
#   PREMISE-CHANGED    exit 3   a construct appeared that creates a seam; the
#                               line(s) above name it; DESIGN.md §3/§5 need redoing
#   (exit 2)                    the audit itself could not run
#
# Usage: tools/premise_audit.sh [--no-census] [--no-probe] [--miri]
#        env: REPO=/path (default /repo), VERIF_SEED (probe seed, default 1), PROBE_RUNS (default 2000),
#             REPORT=/path.json (write an informational JSON report),
#             MIRI_WORKLOADS (default 6), MIRI_SCHEDULES (default 16)   [--miri: ~2-3 min on 16 cores]
set -u
export CARGO_NET_OFFLINE=true
REPO="${REPO:-/repo}"
HERE="$(cd "$(dirname "$0")" && pwd)"
CENSUS=1
PROBE=1
MIRI=0
for a in "$@"; do
  case "$a" in
    --no-census) CENSUS=0 ;;
    --no-probe)  PROBE=0 ;;
    --miri)      MIRI=1 ;;
  esac
done
# replay files of the dynamic probe (written only when it finds something)
REPLAY_DIR="${REPLAY_DIR:-/var/tmp/premise_audit_replay}"

# Scratch space outside /repo and /verif, removed on exit.
SCRATCH="$(mktemp -d "${TMPDIR:-/var/tmp}/premise_audit.XXXXXX")" || { echo "audit error: mktemp failed"; exit 2; }
trap 'rm -rf "$SCRATCH"' EXIT

changed=0
note_ok()      { echo "premise ok:      $*"; }
note_changed() { echo "premise CHANGED: $*"; changed=1; }
die()          { echo "audit error: $*"; exit 2; }

[ -f "$REPO/Cargo.toml" ] && [ -f "$REPO/src/lib.rs" ] || die "$REPO is not the textwrap tree"

# ---------------------------------------------------------------------------
# 1. forbid(unsafe_code)
if grep -qE '^#!\[forbid\(unsafe_code\)\]' "$REPO/src/lib.rs"; then
  note_ok "src/lib.rs carries #![forbid(unsafe_code)]"
else
  note_changed "src/lib.rs no longer carries #![forbid(unsafe_code)] (Send/Sync no longer implies data-race freedom)"
fi

# ---------------------------------------------------------------------------
# 2. Source scan of the library and of its default-feature dependencies.
cd "$REPO" || die "cd $REPO"
cargo metadata --offline --format-version 1 >"$SCRATCH/meta.json" 2>"$SCRATCH/meta.err" \
  || { cat "$SCRATCH/meta.err"; die "cargo metadata failed"; }

python3 - "$REPO" "$SCRATCH/meta.json" >"$SCRATCH/scan.out" <<'PY'
import json, os, re, sys
repo, meta_path = sys.argv[1], sys.argv[2]
meta = json.load(open(meta_path))

PAT = re.compile(r'static |thread|Mutex|RwLock|Atomic|Cell|OnceLock|Lazy|lazy_static|std::io|std::fs|'
                 r'std::env|std::time|Instant|SystemTime|rand|HashMap|HashSet|unsafe|std::process|'
                 r'std::net|spawn|async|await|std::sync|std::os|libc|extern "C"|global_allocator|try_reserve')

def strip_comments(src):
    # remove /* */ blocks and // comments (doc comments and doc-test code included);
    # over-stripping inside string literals only removes text, it cannot add a hit
    src = re.sub(r'/\*.*?\*/', lambda m: '\n' * m.group(0).count('\n'), src, flags=re.S)
    return [re.sub(r'//.*$', '', l) for l in src.split('\n')]

def scan(root, rel_to):
    hits = []
    for d, _, files in sorted(os.walk(root)):
        for f in sorted(files):
            if not f.endswith('.rs'):
                continue
            p = os.path.join(d, f)
            for n, line in enumerate(strip_comments(open(p, encoding='utf-8').read()), 1):
                if PAT.search(line):
                    hits.append((os.path.relpath(p, rel_to), n, line.strip()))
    return hits

ok = True
def changed(msg):
    global ok
    ok = False
    print("CHANGED\t" + msg)

# --- textwrap itself -------------------------------------------------------
ALLOWED = [
    (r'^src/lib\.rs$', r'^#!\[forbid\(unsafe_code\)\]'),
    (r'^src/line_ending\.rs$', r"-> &'static str"),
    # the one interior-mutable cell: a Vec<usize> cache that lives inside one
    # wrap_optimal_fit call (DESIGN.md §1.1)
    (r'^src/wrap_algorithms/optimal_fit\.rs$', r'^use std::cell::RefCell;$'),
    (r'^src/wrap_algorithms/optimal_fit\.rs$', r'^line_numbers: RefCell<Vec<usize>>,$'),
    (r'^src/wrap_algorithms/optimal_fit\.rs$', r'^line_numbers: RefCell::new\(line_numbers\),$'),
]
hits = scan(os.path.join(repo, 'src'), repo)
for f, n, line in hits:
    if not any(re.search(pf, f) and re.search(pl, line) for pf, pl in ALLOWED):
        changed(f"{f}:{n}: `{line}` — construct not present in the audited tree (possible state/time/IO/thread seam)")
print(f"INFO\ttextwrap src: {len(hits)} pattern hits, all on the allow-list" if ok else "INFO\ttextwrap src scanned")

# the RefCell holder must stay call-local: constructed only inside wrap_optimal_fit,
# never in a static/thread_local, never in a pub field or return type
of = open(os.path.join(repo, 'src/wrap_algorithms/optimal_fit.rs'), encoding='utf-8').read()
code = '\n'.join(strip_comments(of))
ctor_sites = [m.start() for m in re.finditer(r'LineNumbers::new\(', code)]
fn_start = code.find('pub fn wrap_optimal_fit')
if len(ctor_sites) != 1 or fn_start < 0 or ctor_sites[0] < fn_start:
    changed("optimal_fit.rs: LineNumbers (the RefCell holder) is no longer constructed exactly once, inside wrap_optimal_fit")
if re.search(r'pub\s+struct\s+LineNumbers|->\s*LineNumbers|:\s*LineNumbers\b', code):
    changed("optimal_fit.rs: LineNumbers escapes (public, returned or stored in a field)")

# --- default features and resolved dependencies ----------------------------
pkgs = {p['id']: p for p in meta['packages']}
root_id = meta['resolve']['root']
root = pkgs[root_id]
default = sorted(root['features'].get('default', []))
if default != ['smawk', 'unicode-linebreak', 'unicode-width']:
    changed(f"default features are now {default} (audited: smawk, unicode-linebreak, unicode-width)")
else:
    print("INFO\tdefault features: " + ", ".join(default))
declared = sorted(d['name'] for d in root['dependencies'] if d.get('kind') is None)
if declared != ['hyphenation', 'smawk', 'terminal_size', 'unicode-linebreak', 'unicode-width']:
    changed(f"declared normal dependencies are now {declared}")
non_optional = [d['name'] for d in root['dependencies'] if d.get('kind') is None and not d.get('optional')]
if non_optional:
    changed(f"non-optional dependencies appeared: {non_optional}")

# scan the three default-feature dependencies (and anything they pull in)
node = {n['id']: n for n in meta['resolve']['nodes']}
def normal_deps(pid):
    for d in node[pid]['deps']:
        if any(k.get('kind') is None for k in d.get('dep_kinds', [{'kind': None}])):
            yield d['pkg']
seen, todo = set(), []
for d in normal_deps(root_id):
    if pkgs[d]['name'] in ('smawk', 'unicode-linebreak', 'unicode-width'):
        todo.append(d)
while todo:
    pid = todo.pop()
    if pid in seen:
        continue
    seen.add(pid)
    todo.extend(normal_deps(pid))
names = sorted(f"{pkgs[p]['name']} {pkgs[p]['version']}" for p in seen)
if sorted(pkgs[p]['name'] for p in seen) != ['smawk', 'unicode-linebreak', 'unicode-width']:
    changed(f"default-feature dependency closure is now {names}")
else:
    print("INFO\tdefault-feature dependency closure: " + ", ".join(names))

DEP_ALLOWED = [
    r'forbid\(unsafe_code\)', r'deny\(unsafe_code\)',
    # immutable lookup tables: `static NAME: [T; N] = ...` / `pub(crate) static`, never `static mut`
    r'^(pub(\([a-z]+\))? )?static [A-Z_0-9]+: ',
    r"&'static ",
]
for pid in sorted(seen):
    p = pkgs[pid]
    pdir = os.path.dirname(p['manifest_path'])
    srcdir = os.path.join(pdir, 'src')
    dhits = scan(srcdir, pdir)
    MUTABLE = re.compile(r'static mut|Mutex|RwLock|Atomic|Cell|Once|Lazy|thread_local|lazy_static')
    bad = [(f, n, l) for f, n, l in dhits
           if MUTABLE.search(l) or not any(re.search(a, l) for a in DEP_ALLOWED)]
    # src/tests, benches and build-time table generators are not linked into the library
    bad = [(f, n, l) for f, n, l in bad if not re.search(r'(^|/)(tests?|benches)(/|\.rs$)', f)]
    for f, n, l in bad:
        changed(f"{p['name']}-{p['version']}/{f}:{n}: `{l}`")
    print(f"INFO\t{p['name']} {p['version']}: {len(dhits)} pattern hits, {len(bad)} outside the allow-list")
print("RESULT\t" + ("ok" if ok else "changed"))
PY
[ $? -eq 0 ] || { cat "$SCRATCH/scan.out"; die "source scan crashed"; }
while IFS=$'\t' read -r kind msg; do
  case "$kind" in
    INFO)    echo "  $msg" ;;
    CHANGED) note_changed "$msg" ;;
    RESULT)  [ "$msg" = ok ] && note_ok "source + dependency scan: no static/shared mutable state, thread, lock, atomic, clock, I/O, env, RNG, hash container, FFI or fallible-allocation construct" ;;
  esac
done <"$SCRATCH/scan.out"
grep -q '^RESULT' "$SCRATCH/scan.out" || die "source scan produced no result"

# ---------------------------------------------------------------------------
# 3. No anchored public function takes or returns a reader, writer, path or handle.
sigs="$(grep -nE '^\s*pub (const )?fn ' "$REPO"/src/*.rs "$REPO"/src/*/*.rs | grep -vE 'src/(termwidth|fuzzing)\.rs' \
        | grep -E 'Read|Write|Path|File|Stream|Future|Receiver|Sender|Arc<|Rc<|Box<dyn Fn|impl Fn|FnMut' || true)"
if [ -z "$sigs" ]; then
  note_ok "no public signature mentions Read/Write/Path/File/Stream/Future/channel/Arc/Rc/closure types"
else
  note_changed "public signature(s) with an environment or callback seam: $sigs"
fi

# ---------------------------------------------------------------------------
# 4. Auto traits (compile-time) and 5. syscall census (run-time).
cp -r "$HERE/premise_audit" "$SCRATCH/crate" || die "copy scratch crate"
sed -i "s#path = \"/repo\"#path = \"$REPO\"#" "$SCRATCH/crate/Cargo.toml"
cp "$REPO/Cargo.lock" "$SCRATCH/crate/Cargo.lock" 2>/dev/null || true
if ( cd "$SCRATCH/crate" && CARGO_TARGET_DIR="$SCRATCH/target" cargo build --release --offline ) >"$SCRATCH/build.log" 2>&1; then
  note_ok "Options, WordSeparator, WordSplitter, WrapAlgorithm, LineEnding, core::Word, Penalties are Send + Sync (compile-time assertion)"
else
  if grep -qE 'cannot be (sent|shared) between threads' "$SCRATCH/build.log"; then
    grep -E -A3 'cannot be (sent|shared) between threads' "$SCRATCH/build.log" | head -20
    note_changed "an option/fragment type is no longer Send + Sync"
  else
    tail -30 "$SCRATCH/build.log"
    [ $changed -eq 1 ] || die "scratch crate did not build (public API changed in a way the audit does not know; not a premise statement)"
    echo "  (scratch crate did not build; auto-trait assertion and syscall census skipped)"
  fi
fi

if [ $CENSUS -eq 1 ] && [ -x "$SCRATCH/target/release/premise_audit" ]; then
  command -v strace >/dev/null || die "strace not installed (use --no-census)"
  strace -f -qq -o "$SCRATCH/strace.out" "$SCRATCH/target/release/premise_audit" census >"$SCRATCH/census.out" 2>&1
  rc=$?
  if [ $rc -ne 0 ]; then
    tail -5 "$SCRATCH/census.out"
    die "census workload exited $rc (an input-level panic in the library is not a premise statement; see the message above)"
  fi
  pc="$(sed -n 's/.*panicked_calls \([0-9]*\).*/\1/p' "$SCRATCH/census.out" | head -1)"
  [ "${pc:-0}" = 0 ] || echo "  note: $pc census call(s) panicked inside the library on the census text — an input-level event, not a premise statement"
  python3 - "$SCRATCH/strace.out" >"$SCRATCH/census.res" <<'PY'
import re, sys, collections
inside, seen_begin, seen_end = False, False, False
counts = collections.Counter()
pids = set()
for line in open(sys.argv[1], errors='replace'):
    m = re.match(r'^(\d+)\s+(\w+)\(', line)
    if not m:
        continue
    pid, sc = m.group(1), m.group(2)
    if sc == 'write' and '@@CENSUS-BEGIN@@' in line:
        inside, seen_begin = True, True
        continue
    if sc == 'write' and '@@CENSUS-END@@' in line:
        inside, seen_end = False, True
        continue
    if inside:
        counts[sc] += 1
        pids.add(pid)
if not (seen_begin and seen_end):
    print("ERROR\tmarkers not found in strace output")
    sys.exit(0)
MEMORY = {'brk', 'mmap', 'munmap', 'mremap', 'madvise', 'mprotect'}
other = {k: v for k, v in counts.items() if k not in MEMORY}
print("INFO\tsyscalls between markers: " + (", ".join(f"{k} x{v}" for k, v in sorted(counts.items())) or "none")
      + f"; issuing threads: {len(pids) or 1}")
if other or len(pids) > 1:
    print("CHANGED\tlibrary issued non-memory system calls or ran on several threads: "
          + ", ".join(f"{k} x{v}" for k, v in sorted(other.items())) + f" (threads: {len(pids)})")
else:
    print("OK\t")
PY
  while IFS=$'\t' read -r kind msg; do
    case "$kind" in
      INFO)    echo "  $msg" ;;
      ERROR)   die "$msg" ;;
      CHANGED) note_changed "$msg" ;;
      OK)      note_ok "syscall census: between the markers the library asked its environment for memory only, on one thread" ;;
    esac
  done <"$SCRATCH/census.res"
elif [ $CENSUS -eq 0 ]; then
  echo "  (syscall census skipped: --no-census)"
fi

# ---------------------------------------------------------------------------
# 6. Dynamic probe: are the entry points functions of their arguments under
#    seeded call histories on several caller threads, buffer reuse, thread
#    restarts and panics injected from caller-supplied callbacks?  (probe.rs)
PROBE_SEED="${VERIF_SEED:-1}"
PROBE_RUNS="${PROBE_RUNS:-2000}"
run_probe() {  # $1 = binary, $2 = tag for file names, $3 = label for messages
  local BIN="$1" TAG="$2" LBL="$3"
  t0=$(date +%s.%N)
  "$BIN" probe --seed "$PROBE_SEED" --runs "$PROBE_RUNS" >"$SCRATCH/hot$TAG.out" 2>"$SCRATCH/hot$TAG.err"; hrc=$?
  export PROBE_HOT_S="$(echo "$(date +%s.%N) - $t0" | bc)"
  if [ $hrc -eq 3 ]; then
    # in-batch mismatch: try to reproduce it from the failing run alone in a fresh
    # process, then drop steps greedily while a mismatch persists
    run="$(sed -n 's/^HISTORY-DEPENDENT seed=[0-9]* run=\([0-9]*\) .*/\1/p' "$SCRATCH/hot$TAG.out" | head -1)"
    nsteps="$(grep -c '^    \[' "$SCRATCH/hot$TAG.out")"
    mkdir -p "$REPLAY_DIR"
    replay="$REPLAY_DIR/probe${TAG}_seed${PROBE_SEED}_run${run}.replay"
    keep="$(seq -s, 0 $((nsteps-1)))"
    if "$BIN" probe --seed "$PROBE_SEED" --runs "$PROBE_RUNS" --only-run "$run" --keep "$keep" >"$SCRATCH/min$TAG.out" 2>/dev/null; [ $? -eq 3 ]; then
      i=$((nsteps-1))
      while [ $i -ge 0 ]; do
        try="$(echo "$keep" | tr ',' '\n' | grep -vx "$i" | paste -sd, -)"
        if [ -n "$try" ] && "$BIN" probe --seed "$PROBE_SEED" --runs "$PROBE_RUNS" --only-run "$run" --keep "$try" >"$SCRATCH/try$TAG.out" 2>/dev/null; [ $? -eq 3 ]; then
          keep="$try"; cp "$SCRATCH/try$TAG.out" "$SCRATCH/min$TAG.out"
        fi
        i=$((i-1))
      done
      { echo "# replay: premise_audit probe --seed $PROBE_SEED --runs $PROBE_RUNS --only-run $run --keep $keep"
        cat "$SCRATCH/min$TAG.out"; } >"$replay"
      sed 's/^/  /' "$SCRATCH/min$TAG.out"
      note_changed "dynamic probe$LBL: a result depends on something other than the call's arguments (minimised to $(echo "$keep" | tr ',' '\n' | wc -l) steps; replay: $replay)"
    else
      { echo "# replay: premise_audit probe --seed $PROBE_SEED --runs $((run+1))   (needs the preceding runs' state; not minimised)"
        cat "$SCRATCH/hot$TAG.out"; } >"$replay"
      sed 's/^/  /' "$SCRATCH/hot$TAG.out" | head -60
      note_changed "dynamic probe$LBL: a result depends on the history of earlier runs in the same process (replay: $replay)"
    fi
  elif [ $hrc -ne 0 ]; then
    tail -5 "$SCRATCH/hot$TAG.out" "$SCRATCH/hot$TAG.err"
    die "dynamic probe$LBL exited $hrc"
  else
    "$BIN" probe --seed "$PROBE_SEED" --runs "$PROBE_RUNS" --cold >"$SCRATCH/cold$TAG.out" 2>"$SCRATCH/cold$TAG.err" || { tail -5 "$SCRATCH/cold$TAG.err"; die "dynamic probe$LBL (cold pass) failed"; }
    echo "  $(head -1 "$SCRATCH/hot$TAG.out")"
    echo "  $(head -1 "$SCRATCH/cold$TAG.out")"
    sed -n '/@@DIGEST@@/,$p' "$SCRATCH/hot$TAG.out"  >"$SCRATCH/hot$TAG.dig"
    sed -n '/@@DIGEST@@/,$p' "$SCRATCH/cold$TAG.out" >"$SCRATCH/cold$TAG.dig"
    [ "$(wc -l <"$SCRATCH/hot$TAG.dig")" -gt 100 ] || die "dynamic probe$LBL produced no digest"
    # determinism of the probe itself: the same seed in another process must give the same bytes
    "$BIN" probe --seed "$PROBE_SEED" --runs "$PROBE_RUNS" >"$SCRATCH/hot2$TAG.out" 2>/dev/null
    "$BIN" probe --seed "$PROBE_SEED" --runs "$PROBE_RUNS" --cold >"$SCRATCH/cold2$TAG.out" 2>/dev/null
    if cmp -s "$SCRATCH/hot$TAG.out" "$SCRATCH/hot2$TAG.out" && cmp -s "$SCRATCH/cold$TAG.out" "$SCRATCH/cold2$TAG.out"; then
      note_ok "dynamic probe$LBL: both passes are byte-identical when repeated in a new process (one seed = one execution)"
    else
      note_changed "dynamic probe$LBL: the same seed gave different results in two processes — the tree now contains a nondeterminism source of its own (randomised hashing, addresses, time, ...); replays below may not reproduce"
    fi
    if cmp -s "$SCRATCH/hot$TAG.dig" "$SCRATCH/cold$TAG.dig"; then
      note_ok "dynamic probe$LBL: every call result is a function of its arguments across threads, buffer reuse, restarts and callback panics, and equals the fresh-process reference pass"
    else
      ndis="$(diff "$SCRATCH/hot$TAG.dig" "$SCRATCH/cold$TAG.dig" | grep -c '^<')"
      kh="$(diff "$SCRATCH/hot$TAG.dig" "$SCRATCH/cold$TAG.dig" | sed -n 's/^[<>] \([0-9a-f]\{16\}\) .*/\1/p' | head -1)"
      P="$BIN probe --seed $PROBE_SEED --runs $PROBE_RUNS"
      hash_of() { sed -n "s/^$kh \\([0-9a-f]\\{16\\}\\)\$/\\1/p" "$1" | head -1; }
      hot_rh="$(hash_of "$SCRATCH/hot$TAG.dig")"; cold_rh="$(hash_of "$SCRATCH/cold$TAG.dig")"
      # ground truth for that key: the lone call in a fresh process
      $P --cold --cold-window "$kh:0" --dump-key "$kh" >"$SCRATCH/lone$TAG.out" 2>/dev/null
      lone_rh="$(sed -n '/@@DIGEST@@/,/@@DUMP@@/p' "$SCRATCH/lone$TAG.out" | hash_of /dev/stdin)"
      mkdir -p "$REPLAY_DIR"
      replay="$REPLAY_DIR/probe${TAG}_seed${PROBE_SEED}_key${kh}.replay"
      minimised="not minimised; "
      {
        if [ -n "$lone_rh" ] && [ "$hot_rh" != "$lone_rh" ]; then
          # the multi-thread history deviates from the lone call: replay its run alone, drop steps greedily
          $P --dump-key "$kh" | sed -n '/@@DUMP@@/,$p' >"$SCRATCH/hot$TAG.dump"
          run="$(sed -n 's/^first-at run \([0-9]*\) step \([0-9]*\) .*/\1/p' "$SCRATCH/hot$TAG.dump" | head -1)"
          step="$(sed -n 's/^first-at run \([0-9]*\) step \([0-9]*\) .*/\2/p' "$SCRATCH/hot$TAG.dump" | head -1)"
          keep="$(seq -s, 0 "$step")"
          if $P --only-run "$run" --keep "$keep" --expect "$kh:$lone_rh" >"$SCRATCH/min$TAG.out" 2>/dev/null; [ $? -eq 3 ]; then
            i=$((step-1))   # the last kept step is the call under test: never dropped
            while [ $i -ge 0 ]; do
              try="$(echo "$keep" | tr ',' '\n' | grep -vx "$i" | paste -sd, -)"
              if $P --only-run "$run" --keep "$try" --expect "$kh:$lone_rh" >"$SCRATCH/try$TAG.out" 2>/dev/null; [ $? -eq 3 ]; then
                keep="$try"; cp "$SCRATCH/try$TAG.out" "$SCRATCH/min$TAG.out"
              fi
              i=$((i-1))
            done
            minimised="minimised to $(echo "$keep" | tr ',' '\n' | wc -l) steps; "
            echo "# replay: premise_audit probe --seed $PROBE_SEED --runs $PROBE_RUNS --only-run $run --keep $keep --expect $kh:$lone_rh"
            cat "$SCRATCH/min$TAG.out"
          else
            echo "# replay: premise_audit probe --seed $PROBE_SEED --runs $PROBE_RUNS --dump-key $kh   (needs the preceding runs' state)"
            cat "$SCRATCH/hot$TAG.dump"
          fi
        else
          # the reference pass deviates from the lone call: shrink the window of preceding calls
          n=1; found=""
          while [ $n -le 65536 ]; do
            $P --cold --cold-window "$kh:$n" >"$SCRATCH/win$TAG.out" 2>/dev/null
            w_rh="$(sed -n '/@@DIGEST@@/,$p' "$SCRATCH/win$TAG.out" | hash_of /dev/stdin)"
            if [ -n "$w_rh" ] && [ "$w_rh" != "$lone_rh" ]; then found=$n; break; fi
            n=$((n*2))
          done
          if [ -n "$found" ]; then
            lo=$((found/2)); hi=$found     # smallest window in (lo, hi] that still deviates
            while [ $((hi-lo)) -gt 1 ]; do
              mid=$(((lo+hi)/2))
              $P --cold --cold-window "$kh:$mid" >"$SCRATCH/win$TAG.out" 2>/dev/null
              w_rh="$(sed -n '/@@DIGEST@@/,$p' "$SCRATCH/win$TAG.out" | hash_of /dev/stdin)"
              if [ -n "$w_rh" ] && [ "$w_rh" != "$lone_rh" ]; then hi=$mid; else lo=$mid; fi
            done
            minimised="minimised to $((hi+1)) consecutive single-thread calls; "
            echo "# replay: premise_audit probe --seed $PROBE_SEED --runs $PROBE_RUNS --cold --cold-window $kh:$hi --dump-key $kh   vs   --cold-window $kh:0"
            echo "## the $hi preceding call(s) of the reference order, then the key, in execution order:"
            $P --cold --cold-window "$kh:$hi" --dump-all | sed -n '/@@DUMP@@/,$p'
          else
            echo "# replay: premise_audit probe --seed $PROBE_SEED --runs $PROBE_RUNS --cold --dump-key $kh   vs   --cold-window $kh:0"
            $P --cold --dump-key "$kh" | sed -n '/@@DUMP@@/,$p'
          fi
        fi
        echo "## the lone call in a fresh process:"
        sed -n '/@@DUMP@@/,$p' "$SCRATCH/lone$TAG.out"
      } >"$replay" 2>/dev/null
      sed 's/^/  /' "$replay" | cut -c1-400
      note_changed "dynamic probe$LBL: the multi-thread history and the fresh-process reference pass disagree on $ndis key(s) (${minimised}replay: $replay)"
    fi
  fi
}
if [ $PROBE -eq 1 ] && [ -x "$SCRATCH/target/release/premise_audit" ]; then
  run_probe "$SCRATCH/target/release/premise_audit" "" ""
  # the same probe against the library built with --no-default-features
  # (no smawk / unicode-linebreak / unicode-width: the properties quantify over both sets)
  if ( cd "$SCRATCH/crate" && CARGO_TARGET_DIR="$SCRATCH/target_nd" cargo build --release --offline --no-default-features ) >"$SCRATCH/build_nd.log" 2>&1; then
    run_probe "$SCRATCH/target_nd/release/premise_audit" "_nodefault" " [no default features]"
  else
    tail -20 "$SCRATCH/build_nd.log"
    [ $changed -eq 1 ] || die "scratch crate did not build with --no-default-features"
    echo "  (scratch crate did not build with --no-default-features; second probe skipped)"
  fi
elif [ $PROBE -eq 0 ]; then
  echo "  (dynamic probe skipped: --no-probe)"
fi

# ---------------------------------------------------------------------------
# 7. (--miri) Interleavings INSIDE calls: a few caller threads free-run
#    overlapping calls on shared buffers under Miri, whose scheduler preempts at
#    any instruction and is a function of -Zmiri-seed. Also reports data races/UB.
if [ $MIRI -eq 1 ]; then
  cargo +nightly miri --version >/dev/null 2>&1 || die "--miri: cargo +nightly miri is not available"
  W="${MIRI_WORKLOADS:-6}"; K="${MIRI_SCHEDULES:-16}"; s0="${VERIF_SEED:-1}"
  miri_bad=0; miri_ok=0
  for ws in $(seq "$s0" $((s0+W-1))); do
    ( cd "$SCRATCH/crate" && MIRIFLAGS="-Zmiri-many-seeds=0..$K -Zmiri-preemption-rate=0.05" CARGO_TARGET_DIR="$SCRATCH/miri_target" \
        cargo +nightly miri run --offline -- probe --parallel --seed "$ws" ) >"$SCRATCH/miri.$ws.log" 2>&1
    mrc=$?
    miri_ok=$((miri_ok + $(grep -c '^parallel pass' "$SCRATCH/miri.$ws.log")))
    if [ $mrc -ne 0 ]; then
      if grep -q 'SCHEDULE-DEPENDENT\|Undefined Behavior\|Data race' "$SCRATCH/miri.$ws.log"; then
        fs="$(sed -n 's/^FAILING SEED: \([0-9]*\)/\1/p' "$SCRATCH/miri.$ws.log" | head -1)"
        mkdir -p "$REPLAY_DIR"; replay="$REPLAY_DIR/miri_workload${ws}_schedule${fs:-unknown}.replay"
        { echo "# replay: MIRIFLAGS=\"-Zmiri-seed=${fs:-?} -Zmiri-preemption-rate=0.05\" cargo +nightly miri run --offline -- probe --parallel --seed $ws   (in a copy of tools/premise_audit pointed at the tree)"
          grep -A4 'SCHEDULE-DEPENDENT\|Undefined Behavior\|Data race' "$SCRATCH/miri.$ws.log" | head -40; } >"$replay"
        sed 's/^/  /' "$replay" | cut -c1-300
        note_changed "miri pass: a result depends on how caller threads interleave inside calls, or the interpreter reported a race/UB (workload seed $ws, scheduler seed ${fs:-?}; replay: $replay)"
        miri_bad=1; break
      else
        tail -15 "$SCRATCH/miri.$ws.log"; die "--miri: interpreter run failed for workload seed $ws"
      fi
    fi
  done
  [ $miri_bad -eq 0 ] && note_ok "miri pass: $miri_ok executions ($W workloads x $K scheduler seeds, preemption inside calls): every concurrent result equals the single-thread result; no data race or UB reported"
fi

# ---------------------------------------------------------------------------
# Optional machine-readable report (REPORT=/path/file.json): what this run did.
# Informational; it is NOT an evidence file (no property is claimed).
if [ -n "${REPORT:-}" ]; then
  python3 - "$REPORT" "$REPO" "$changed" "$PROBE_SEED" "$PROBE_RUNS" "$SCRATCH" "$SECONDS" "$MIRI" "${miri_ok:-0}" <<'PY'
import json, re, sys, os, subprocess
out, repo, changed, seed, runs, scratch, secs, miri, miri_ok = sys.argv[1:10]
def first(path):
    try: return open(path).readline().strip()
    except OSError: return ""
hot = first(os.path.join(scratch, "hot.out"))
hot_nd = first(os.path.join(scratch, "hot_nodefault.out"))
stats = {k: int(v) for k, v in re.findall(r'(\w+) (\d+)', hot) if k not in ("seed",)}
census = ""
try:
    for l in open(os.path.join(scratch, "census.res")):
        if l.startswith("INFO"): census = l.split("\t", 1)[1].strip()
except OSError: pass
head = subprocess.run(["git", "-C", repo, "rev-parse", "--short", "HEAD"], capture_output=True, text=True).stdout.strip()
dirty = bool(subprocess.run(["git", "-C", repo, "status", "--porcelain", "--", "src", "Cargo.toml"], capture_output=True, text=True).stdout.strip())
rep = {
  "tool": "tools/premise_audit.sh (informational; decides no property; never prints VIOLATION)",
  "tree": {"path": repo, "head": head, "src_modified": dirty},
  "verdict": "PREMISE-CHANGED" if changed != "0" else "PREMISES-HOLD",
  "wall_s": int(secs),
  "syscall_census": census,
  "dynamic_probe": {
    "seed": int(seed), "runs": int(runs),
    "real_code": "every call goes into the textwrap library built from the tree above (release profile); nothing is stubbed",
    "harness_only": "caller threads, their reusable buffers, the one-call-at-a-time scheduler, the callbacks and the user Fragment that raise the injected panics",
    "scheduler": "one PRNG (splitmix64) seeded from VERIF_SEED draws texts, calls, which thread makes each call, where its buffer lives, restarts and fault positions; threads are real and are released one call at a time",
    "counts": stats,
    "events_injected": {
      "caller_buffer_reused_with_new_contents": stats.get("buffer_reuses_new_contents"),
      "same_shared_buffer_used_from_threads": stats.get("shared_buffer_calls"),
      "thread_exit_and_respawn": stats.get("worker_restarts"),
      "callback_or_fragment_panic_armed": stats.get("faults_armed"),
      "callback_or_fragment_panic_fired_and_caught": stats.get("faults_fired"),
      "calls_made_on_a_thread_after_it_caught_a_panic": stats.get("calls_after_fault_same_thread"),
    },
    "interleavings": {"distinct_call_orders": stats.get("distinct_call_orders"),
                      "library_internal_scheduling_points": 0,
                      "note": "the library contains no synchronisation, I/O or timer call, so whole calls are the only unit a scheduler can order"},
    "runs_per_hour_at_this_rate": int(int(runs) * 3600 / max(0.05, float(os.environ.get("PROBE_HOT_S", "0.3")))),
  },
  "dynamic_probe_no_default_features": ({k: int(v) for k, v in re.findall(r'(\w+) (\d+)', hot_nd) if k != "seed"} or "not run"),
  "miri_pass": ({"executions": int(miri_ok)} if miri == "1" else "not run (pass --miri)"),
}
os.makedirs(os.path.dirname(out) or ".", exist_ok=True)
json.dump(rep, open(out, "w"), indent=1)
PY
fi

# ---------------------------------------------------------------------------
if [ $changed -eq 0 ]; then
  echo "PREMISES-HOLD"
  exit 0
else
  echo "PREMISE-CHANGED"
  exit 3
fi
