#!/usr/bin/env bash
# Informational only. NOT a check: registered nowhere in MANIFEST.json, decides
# no property, never prints a VIOLATION line.
#
# Re-derives, from /repo's current working tree, the premises on which
# DESIGN.md's verdict ("deterministic simulation with fault injection does not
# apply to any of C01-C20") rests, and prints
#
#   PREMISES-HOLD      exit 0   the tree still looks as DESIGN.md §1 describes
#   PREMISE-CHANGED    exit 3   a construct appeared that creates a seam; the
#                               line(s) above name it; DESIGN.md §3/§5 need redoing
#   (exit 2)                    the audit itself could not run
#
# Usage: tools/premise_audit.sh [--no-census] [--no-probe] [--miri]
#        env: REPO=/path (default /repo), VERIF_SEED (probe seed, default 1), PROBE_RUNS (default 2000),
#             REPORT=/path.json (write an informational JSON report),
#             MIRI_WORKLOADS (default 6), MIRI_SCHEDULES (default 16)   [--miri: ~2-3 min on 16 cores]
set -u
export CARGO_NET_OFFLINE=true
REPO="${REPO:-/repo}"
HERE="$(cd "$(dirname "$0")" && pwd)"
CENSUS=1
PROBE=1
MIRI=0
for a in "$@"; do
  case "$a" in
    --no-census) CENSUS=0 ;;
    --no-probe)  PROBE=0 ;;
    --miri)      MIRI=1 ;;
  esac
done
# replay files of the dynamic probe (written only when it finds something)
REPLAY_DIR="${REPLAY_DIR:-/var/tmp/premise_audit_replay}"

# Scratch space outside /repo and /verif, removed on exit.
SCRATCH="$(mktemp -d "${TMPDIR:-/var/tmp}/premise_audit.XXXXXX")" || { echo "audit error: mktemp failed"; exit 2; }
trap 'rm -rf "$SCRATCH"' EXIT

changed=0
note_ok()      { echo "premise ok:      $*"; }
note_changed() { echo "premise CHANGED: $*"; changed=1; }
die()          { echo "audit error: $*"; exit 2; }

[ -f "$REPO/Cargo.toml" ] && [ -f "$REPO/src/lib.rs" ] || die "$REPO is not the textwrap tree"

# ---------------------------------------------------------------------------
# 1. forbid(unsafe_code)
if grep -qE '^#!\[forbid\(unsafe_code\)\]' "$REPO/src/lib.rs"; then
  note_ok "src/lib.rs carries #![forbid(unsafe_code)]"
else
  note_changed "src/lib.rs no longer carries #![forbid(unsafe_code)] (Send/Sync no longer implies data-race freedom)"
fi

# ---------------------------------------------------------------------------
# 2. Source scan of the library and of its default-feature dependencies.
cd "$REPO" || die "cd $REPO"
cargo metadata --offline --format-version 1 >"$SCRATCH/meta.json" 2>"$SCRATCH/meta.err" \
  || { cat "$SCRATCH/meta.err"; die "cargo metadata failed"; }

python3 - "$REPO" "$SCRATCH/meta.json" >"$SCRATCH/scan.out" <<'PY'
import json, os, re, sys
repo, meta_path = sys.argv[1], sys.argv[2]
meta = json.load(open(meta_path))

PAT = re.compile(r'static |thread|Mutex|RwLock|Atomic|Cell|OnceLock|Lazy|lazy_static|std::io|std::fs|'
                 r'std::env|std::time|Instant|SystemTime|rand|HashMap|HashSet|unsafe|std::process|'
                 r'std::net|spawn|async|await|std::sync|std::os|libc|extern "C"|global_allocator|try_reserve')

def strip_comments(src):
    # remove /* */ blocks and // comments (doc comments and doc-test code included);
    # over-stripping inside string literals only removes text, it cannot add a hit
    src = re.sub(r'/\*.*?\*/', lambda m: '\n' * m.group(0).count('\n'), src, flags=re.S)
    return [re.sub(r'//.*$', '', l) for l in src.split('\n')]

def scan(root, rel_to):
    hits = []
    for d, _, files in sorted(os.walk(root)):
        for f in sorted(files):
            if not f.endswith('.rs'):
                continue
            p = os.path.join(d, f)
            for n, line in enumerate(strip_comments(open(p, encoding='utf-8').read()), 1):
                if PAT.search(line):
                    hits.append((os.path.relpath(p, rel_to), n, line.strip()))
    return hits

ok = True
def changed(msg):
    global ok
    ok = False
    print("CHANGED\t" + msg)

# --- textwrap itself -------------------------------------------------------
ALLOWED = [
    (r'^src/lib\.rs$', r'^#!\[forbid\(unsafe_code\)\]'),
    (r'^src/line_ending\.rs$', r"-> &'static str"),
    # the one interior-mutable cell: a Vec<usize> cache that lives inside one
    # wrap_optimal_fit call (DESIGN.md §1.1)
    (r'^src/wrap_algorithms/optimal_fit\.rs$', r'^use std::cell::RefCell;$'),
    (r'^src/wrap_algorithms/optimal_fit\.rs$', r'^line_numbers: RefCell<Vec<usize>>,$'),
    (r'^src/wrap_algorithms/optimal_fit\.rs$', r'^line_numbers: RefCell::new\(line_numbers\),$'),
]
hits = scan(os.path.join(repo, 'src'), repo)
for f, n, line in hits:
    if not any(re.search(pf, f) and re.search(pl, line) for pf, pl in ALLOWED):
        changed(f"{f}:{n}: `{line}` — construct not present in the audited tree (possible state/time/IO/thread seam)")
print(f"INFO\ttextwrap src: {len(hits)} pattern hits, all on the allow-list" if ok else "INFO\ttextwrap src scanned")

# the RefCell holder must stay call-local: constructed only inside wrap_optimal_fit,
# never in a static/thread_local, never in a pub field or return type
of = open(os.path.join(repo, 'src/wrap_algorithms/optimal_fit.rs'), encoding='utf-8').read()
code = '\n'.join(strip_comments(of))
ctor_sites = [m.start() for m in re.finditer(r'LineNumbers::new\(', code)]
fn_start = code.find('pub fn wrap_optimal_fit')
if len(ctor_sites) != 1 or fn_start < 0 or ctor_sites[0] < fn_start:
    changed("optimal_fit.rs: LineNumbers (the RefCell holder) is no longer constructed exactly once, inside wrap_optimal_fit")
if re.search(r'pub\s+struct\s+LineNumbers|->\s*LineNumbers|:\s*LineNumbers\b', code):
    changed("optimal_fit.rs: LineNumbers escapes (public, returned or stored in a field)")

# --- default features and resolved dependencies ----------------------------
pkgs = {p['id']: p for p in meta['packages']}
root_id = meta['resolve']['root']
root = pkgs[root_id]
default = sorted(root['features'].get('default', []))
if default != ['smawk', 'unicode-linebreak', 'unicode-width']:
    changed(f"default features are now {default} (audited: smawk, unicode-linebreak, unicode-width)")
else:
    print("INFO\tdefault features: " + ", ".join(default))
declared = sorted(d['name'] for d in root['dependencies'] if d.get('kind') is None)
if declared != ['hyphenation', 'smawk', 'terminal_size', 'unicode-linebreak', 'unicode-width']:
    changed(f"declared normal dependencies are now {declared}")
non_optional = [d['name'] for d in root['dependencies'] if d.get('kind') is None and not d.get('optional')]
if non_optional:
    changed(f"non-optional dependencies appeared: {non_optional}")

# scan the three default-feature dependencies (and anything they pull in)
node = {n['id']: n for n in meta['resolve']['nodes']}
def normal_deps(pid):
    for d in node[pid]['deps']:
        if any(k.get('kind') is None for k in d.get('dep_kinds', [{'kind': None}])):
            yield d['pkg']
seen, todo = set(), []
for d in normal_deps(root_id):
    if pkgs[d]['name'] in ('smawk', 'unicode-linebreak', 'unicode-width'):
        todo.append(d)
while todo:
    pid = todo.pop()
    if pid in seen:
        continue
    seen.add(pid)
    todo.extend(normal_deps(pid))
names = sorted(f"{pkgs[p]['name']} {pkgs[p]['version']}" for p in seen)
if sorted(pkgs[p]['name'] for p in seen) != ['smawk', 'unicode-linebreak', 'unicode-width']:
    changed(f"default-feature dependency closure is now {names}")
else:
    print("INFO\tdefault-feature dependency closure: " + ", ".join(names))

DEP_ALLOWED = [
    r'forbid\(unsafe_code\)', r'deny\(unsafe_code\)',
    # immutable lookup tables: `static NAME: [T; N] = ...` / `pub(crate) static`, never `static mut`
    r'^(pub(\([a-z]+\))? )?static [A-Z_0-9]+: ',
    r"&'static ",
]
for pid in sorted(seen):
    p = pkgs[pid]
    pdir = os.path.dirname(p['manifest_path'])
    srcdir = os.path.join(pdir, 'src')
    dhits = scan(srcdir, pdir)
    MUTABLE = re.compile(r'static mut|Mutex|RwLock|Atomic|Cell|Once|Lazy|thread_local|lazy_static')
    bad = [(f, n, l) for f, n, l in dhits
           if MUTABLE.search(l) or not any(re.search(a, l) for a in DEP_ALLOWED)]
    # src/tests, benches and build-time table generators are not linked into the library
    bad = [(f, n, l) for f, n, l in bad if not re.search(r'(^|/)(tests?|benches)(/|\.rs$)', f)]
    for f, n, l in bad:
        changed(f"{p['name']}-{p['version']}/{f}:{n}: `{l}`")
    print(f"INFO\t{p['name']} {p['version']}: {len(dhits)} pattern hits, {len(bad)} outside the allow-list")
print("RESULT\t" + ("ok" if ok else "changed"))
PY
[ $? -eq 0 ] || { cat "$SCRATCH/scan.out"; die "source scan crashed"; }
while IFS=$'\t' read -r kind msg; do
  case "$kind" in
    INFO)    echo "  $msg" ;;
    CHANGED) note_changed "$msg" ;;
    RESULT)  [ "$msg" = ok ] && note_ok "source + dependency scan: no static/shared mutable state, thread, lock, atomic, clock, I/O, env, RNG, hash container, FFI or fallible-allocation construct" ;;
  esac
done <"$SCRATCH/scan.out"
grep -q '^RESULT' "$SCRATCH/scan.out" || die "source scan produced no result"

# ---------------------------------------------------------------------------
# 3. No anchored public function takes or returns a reader, writer, path or handle.
sigs="$(grep -nE '^\s*pub (const )?fn ' "$REPO"/src/*.rs "$REPO"/src/*/*.rs | grep -vE 'src/(termwidth|fuzzing)\.rs' \
        | grep -E 'Read|Write|Path|File|Stream|Future|Receiver|Sender|Arc<|Rc<|Box<dyn Fn|impl Fn|FnMut' || true)"
if [ -z "$sigs" ]; then
  note_ok "no public signature mentions Read/Write/Path/File/Stream/Future/channel/Arc/Rc/closure types"
else
  note_changed "public signature(s) with an environment or callback seam: $sigs"
fi

# ---------------------------------------------------------------------------
# 4. Auto traits (compile-time) and 5. syscall census (run-time).
cp -r "$HERE/premise_audit" "$SCRATCH/crate" || die "copy scratch crate"
sed -i "s#path = \"/repo\"#path = \"$REPO\"#" "$SCRATCH/crate/Cargo.toml"
cp "$REPO/Cargo.lock" "$SCRATCH/crate/Cargo.lock" 2>/dev/null || true
if ( cd "$SCRATCH/crate" && CARGO_TARGET_DIR="$SCRATCH/target" cargo build --release --offline ) >"$SCRATCH/build.log" 2>&1; then
  note_ok "Options, WordSeparator, WordSplitter, WrapAlgorithm, LineEnding, core::Word, Penalties are Send + Sync (compile-time assertion)"
else
  if grep -qE 'cannot be (sent|shared) between threads' "$SCRATCH/build.log"; then
    grep -E -A3 'cannot be (sent|shared) between threads' "$SCRATCH/build.log" | head -20
    note_changed "an option/fragment type is no longer Send + Sync"
  else
    tail -30 "$SCRATCH/build.log"
    [ $changed -eq 1 ] || die "scratch crate did not build (public API changed in a way the audit does not know; not a premise statement)"
    echo "  (scratch crate did not build; auto-trait assertion and syscall census skipped)"
  fi
fi

if [ $CENSUS -eq 1 ] && [ -x "$SCRATCH/target/release/premise_audit" ]; then
  command -v strace >/dev/null || die "strace not installed (use --no-census)"
  strace -f -qq -o "$SCRATCH/strace.out" "$SCRATCH/target/release/premise_audit" census >"$SCRATCH/census.out" 2>&1
  rc=$?
  if [ $rc -ne 0 ]; then
    tail -5 "$SCRATCH/census.out"
    die "census workload exited $rc (an input-level panic in the library is not a premise statement; see the message above)"
  fi
  pc="$(sed -n 's/.*panicked_calls \([0-9]*\).*/\1/p' "$SCRATCH/census.out" | head -1)"
  [ "${pc:-0}" = 0 ] || echo "  note: $pc census call(s) panicked inside the library on the census text — an input-level event, not a premise statement"
  python3 - "$SCRATCH/strace.out" >"$SCRATCH/census.res" <<'PY'
import re, sys, collections
inside, seen_begin, seen_end = False, False, False
counts = collections.Counter()
pids = set()
for line in open(sys.argv[1], errors='replace'):
    m = re.match(r'^(\d+)\s+(\w+)\(', line)
    if not m:
        continue
    pid, sc = m.group(1), m.group(2)
    if sc == 'write' and '@@CENSUS-BEGIN@@' in line:
        inside, seen_begin = True, True
        continue
    if sc == 'write' and '@@CENSUS-END@@' in line:
        inside, seen_end = False, True
        continue
    if inside:
        counts[sc] += 1
        pids.add(pid)
if not (seen_begin and seen_end):
    print("ERROR\tmarkers not found in strace output")
    sys.exit(0)
MEMORY = {'brk', 'mmap', 'munmap', 'mremap', 'madvise', 'mprotect'}
other = {k: v for k, v in counts.items() if k not in MEMORY}
print("INFO\tsyscalls between markers: " + (", ".join(f"{k} x{v}" for k, v in sorted(counts.items())) or "none")
      + f"; issuing threads: {len(pids) or 1}")
if other or len(pids) > 1:
    print("CHANGED\tlibrary issued non-memory system calls or ran on several threads: "
          + ", ".join(f"{k} x{v}" for k, v in sorted(other.items())) + f" (threads: {len(pids)})")
else:
    print("OK\t")
PY
  while IFS=$'\t' read -r kind msg; do
    case "$kind" in
      INFO)    echo "  $msg" ;;
      ERROR)   die "$msg" ;;
      CHANGED) note_changed "$msg" ;;
      OK)      note_ok "syscall census: between the markers the library asked its environment for memory only, on one thread" ;;
    esac
  done <"$SCRATCH/census.res"
elif [ $CENSUS -eq 0 ]; then
  echo "  (syscall census skipped: --no-census)"
fi

# ---------------------------------------------------------------------------
# 6. Dynamic probe: are the entry points functions of their arguments under
#    seeded call histories on several caller threads, buffer reuse, thread
#    restarts and panics injected from caller-supplied code?  This is the
#    registered checks' simulator (sim/, driven by checks/check.py) run with the
#    pseudo-property ALL — the complete result of every call — against a copy
#    whose path dependency points at $REPO, for both cargo feature sets.
PROBE_SEED="${VERIF_SEED:-1}"
export PROBE_RUNS="${PROBE_RUNS:-2000}"
VERIF_DIR="$(dirname "$HERE")"
sim_copy() {
  rm -rf "$SCRATCH/sim"; cp -r "$VERIF_DIR/sim" "$SCRATCH/sim" || die "copy simulator"
  sed -i "s#path = \"/repo\"#path = \"$REPO\"#" "$SCRATCH/sim/Cargo.toml"
}
relay() {  # print the driver's report without its VIOLATION line (the audit never prints one)
  grep -v '^VIOLATION ' "$1" | sed 's/^/  /' | cut -c1-400 | head -60
}
if [ $PROBE -eq 1 ]; then
  sim_copy
  VERIF_SEED="$PROBE_SEED" TW_SIM_SRC="$SCRATCH/sim" TW_OUT="$SCRATCH/simout" python3 "$VERIF_DIR/checks/check.py" ALL quick >"$SCRATCH/probe.log" 2>&1; prc=$?
  if [ $prc -eq 0 ]; then
    echo "  $(tail -1 "$SCRATCH/probe.log" | cut -c1-400)"
    note_ok "dynamic probe: every call result is a function of its arguments across threads, buffer reuse, restarts and caught panics in caller code; equals the fresh-process reference pass; byte-identical when repeated (both feature sets)"
  elif [ $prc -eq 1 ]; then
    rp="$(sed -n 's/^VIOLATION property=ALL replay=//p' "$SCRATCH/probe.log" | head -1)"
    mkdir -p "$REPLAY_DIR"; [ -f "$rp" ] && cp "$rp" "$REPLAY_DIR/" && rp="$REPLAY_DIR/$(basename "$rp")"
    relay "$SCRATCH/probe.log"
    note_changed "dynamic probe: $(sed -n 's/^ALL: //p' "$SCRATCH/probe.log" | head -1) (replay: $rp; re-run with TW_SIM_SRC=<copy of sim/ pointed at the tree> TW_OUT=<dir> checks/check.py --replay <file>)"
  else
    tail -20 "$SCRATCH/probe.log"
    [ $changed -eq 1 ] || die "dynamic probe could not run (exit $prc)"
    echo "  (dynamic probe could not run on this tree; skipped)"
  fi
else
  echo "  (dynamic probe skipped: --no-probe)"
fi

# ---------------------------------------------------------------------------
# 7. (--miri) Interleavings INSIDE calls: a few caller threads free-run
#    overlapping calls on shared buffers under Miri, whose scheduler preempts at
#    any instruction and is a function of -Zmiri-seed. Also reports data races/UB.
miri_ok=0
if [ $MIRI -eq 1 ]; then
  cargo +nightly miri --version >/dev/null 2>&1 || die "--miri: cargo +nightly miri is not available"
  sim_copy
  VERIF_SEED="${VERIF_SEED:-1}" TW_SIM_SRC="$SCRATCH/sim" TW_OUT="$SCRATCH/simout" python3 "$VERIF_DIR/checks/check.py" ALL miri >"$SCRATCH/miri.log" 2>&1; mrc=$?
  if [ $mrc -eq 0 ]; then
    miri_ok="$(sed -n 's/.*miri executions \([0-9]*\).*/\1/p' "$SCRATCH/miri.log" | tail -1)"
    note_ok "miri pass: ${miri_ok:-?} executions (${MIRI_WORKLOADS:-6} workloads x ${MIRI_SCHEDULES:-16} scheduler seeds, preemption inside calls): every concurrent result equals the single-thread result; no data race or UB reported"
  elif [ $mrc -eq 1 ]; then
    rp="$(sed -n 's/^VIOLATION property=ALL replay=//p' "$SCRATCH/miri.log" | head -1)"
    mkdir -p "$REPLAY_DIR"; [ -f "$rp" ] && cp "$rp" "$REPLAY_DIR/" && rp="$REPLAY_DIR/$(basename "$rp")"
    relay "$SCRATCH/miri.log"
    note_changed "miri pass: $(sed -n 's/^ALL: //p' "$SCRATCH/miri.log" | head -1) (replay: $rp)"
  else
    tail -20 "$SCRATCH/miri.log"; die "--miri: interpreter run failed"
  fi
fi

# ---------------------------------------------------------------------------
# Optional machine-readable report (REPORT=/path/file.json): what this run did.
# Informational; it is NOT an evidence file (no property is claimed).
if [ -n "${REPORT:-}" ]; then
  python3 - "$REPORT" "$REPO" "$changed" "$PROBE_SEED" "$PROBE_RUNS" "$SCRATCH" "$SECONDS" "$MIRI" "${miri_ok:-0}" <<'PY'
import json, re, sys, os, subprocess
out, repo, changed, seed, runs, scratch, secs, miri, miri_ok = sys.argv[1:10]
def first(path):
    try: return open(path).readline().strip()
    except OSError: return ""
try:
    ev = json.load(open(os.path.join(scratch, "simout", "evidence", "ALL.json")))["coverage"]
except (OSError, ValueError, KeyError):
    ev = {}
stats = dict(ev.get("events_injected", {}), **{k: ev.get(k) for k in ("evaluations", "distinct_nontrivial", "simulated_runs", "feature_sets", "runs_per_hour_one_core")})
census = ""
try:
    for l in open(os.path.join(scratch, "census.res")):
        if l.startswith("INFO"): census = l.split("\t", 1)[1].strip()
except OSError: pass
head = subprocess.run(["git", "-C", repo, "rev-parse", "--short", "HEAD"], capture_output=True, text=True).stdout.strip()
dirty = bool(subprocess.run(["git", "-C", repo, "status", "--porcelain", "--", "src", "Cargo.toml"], capture_output=True, text=True).stdout.strip())
rep = {
  "tool": "tools/premise_audit.sh (informational; decides no property; never prints VIOLATION)",
  "tree": {"path": repo, "head": head, "src_modified": dirty},
  "verdict": "PREMISE-CHANGED" if changed != "0" else "PREMISES-HOLD",
  "wall_s": int(secs),
  "syscall_census": census,
  "dynamic_probe": ({
    "engine": "sim/ driven by checks/check.py with the pseudo-property ALL (the complete result of every call), both cargo feature sets",
    "seed": int(seed), "runs_per_feature_set": int(runs),
    "calls_compared": ev.get("evaluations"), "keys_compared_across_contexts": ev.get("distinct_nontrivial"),
    "events_injected": ev.get("events_injected"), "interleavings": ev.get("interleavings"),
    "reference_pass": ev.get("reference_pass"), "runs_per_hour_one_core": ev.get("runs_per_hour_one_core"),
    "real_code": ev.get("real_code"), "stubs": ev.get("stubs"), "samples": ev.get("samples"),
  } if ev else "not run or ended in a finding (see the audit output)"),
  "miri_pass": ({"executions": int(miri_ok or 0)} if miri == "1" else "not run (pass --miri)"),
}
os.makedirs(os.path.dirname(out) or ".", exist_ok=True)
json.dump(rep, open(out, "w"), indent=1)
PY
fi

# ---------------------------------------------------------------------------
if [ $changed -eq 0 ]; then
  echo "PREMISES-HOLD"
  exit 0
else
  echo "PREMISE-CHANGED"
  exit 3
fi
