// Scratch program used by tools/premise_audit.sh. It decides no property.
//
// 1. Compile-time: the option and fragment types the properties anchor are
//    `Send + Sync` (with `forbid(unsafe_code)` that makes data-race freedom a
//    type-system fact, for every schedule).
// 2. Run-time (`census`): call every anchored entry point on a large,
//    adversarial text between two marker writes so that `strace` can show which
//    system calls the library issues. Nothing is printed between the markers.

use std::io::Write;

mod probe;

use textwrap::core::{break_words, display_width, Word};
use textwrap::wrap_algorithms::wrap_first_fit;
#[cfg(feature = "full")]
use textwrap::wrap_algorithms::Penalties;
use textwrap::{
    dedent, fill, fill_inplace, indent, refill, unfill, wrap, wrap_columns, LineEnding, Options,
    WordSeparator, WordSplitter, WrapAlgorithm,
};

fn assert_send_sync<T: Send + Sync>() {}

#[allow(dead_code)]
fn auto_traits() {
    assert_send_sync::<Options<'static>>();
    assert_send_sync::<WordSeparator>();
    assert_send_sync::<WordSplitter>();
    assert_send_sync::<WrapAlgorithm>();
    assert_send_sync::<LineEnding>();
    assert_send_sync::<Word<'static>>();
    #[cfg(feature = "full")]
    assert_send_sync::<Penalties>();
}

fn marker(s: &str) {
    let mut out = std::io::stdout();
    out.write_all(s.as_bytes()).unwrap();
    out.flush().unwrap();
}

fn build_text() -> String {
    let para = "The quick brown fox jumps over the lazy dog, while the \u{1b}[31mred\u{1b}[0m \
                well-known self-contained state-of-the-art \u{1b}]8;;http://example.org\u{1b}\\link\u{1b}]8;;\u{1b}\\ \
                犬も歩けば棒に当たる 😂😍 e\u{301}a\u{308}\u{200b}zero\u{ad}width\u{a0}nbsp \
                supercalifragilisticexpialidociouslylongwordthatneedsbreaking   trailing   ";
    let mut text = String::new();
    for i in 0..800 {
        text.push_str(para);
        text.push_str(if i % 7 == 0 { "\n\n" } else if i % 3 == 0 { "\r\n" } else { "\n" });
        if i % 11 == 0 {
            text.push_str("    indented line\n\t\n  > quoted text goes here\n  > and continues\n");
        }
    }
    text
}

/// Runs one library call; an input-level panic (the census text hitting a
/// defect) is counted, not propagated: it says nothing about the premises.
fn guarded<F: FnOnce() -> u64>(panics: &mut u64, f: F) -> u64 {
    match std::panic::catch_unwind(std::panic::AssertUnwindSafe(f)) {
        Ok(v) => v,
        Err(_) => {
            *panics += 1;
            0
        }
    }
}

fn census() {
    let text = build_text();
    let widths = [0usize, 1, 7, 40, 80, usize::MAX];
    let mut acc: u64 = 0;
    let mut panics: u64 = 0;
    // no message on stderr (that would be a write() between the markers)
    std::panic::set_hook(Box::new(|_| {}));
    // the unwinder's one-time initialisation (a futex) happens here, outside the markers
    let _ = std::panic::catch_unwind(|| panic!("warm-up"));

    marker("@@CENSUS-BEGIN@@\n");
    for &w in &widths {
        for alg in [WrapAlgorithm::FirstFit, probe::optimal_alg()] {
            for sep in [WordSeparator::AsciiSpace, WordSeparator::new()] {
                for bw in [false, true] {
                    for splitter in [WordSplitter::NoHyphenation, WordSplitter::HyphenSplitter] {
                        let opts = Options::new(w)
                            .wrap_algorithm(alg)
                            .word_separator(sep)
                            .break_words(bw)
                            .word_splitter(splitter.clone())
                            .initial_indent("* ")
                            .subsequent_indent("  ");
                        acc = acc.wrapping_add(guarded(&mut panics, || wrap(&text, &opts).len() as u64));
                        acc = acc.wrapping_add(guarded(&mut panics, || fill(&text, &opts).len() as u64));
                    }
                }
            }
        }
        let first_para = text.lines().next().unwrap();
        acc = acc.wrapping_add(guarded(&mut panics, || {
            let filled = fill(first_para, Options::new(w.max(1)).initial_indent("> ").subsequent_indent("> "));
            let (un, o) = unfill(&filled);
            un.len() as u64 + o.width as u64 + refill(&filled, w).len() as u64
        }));
        acc = acc.wrapping_add(guarded(&mut panics, || {
            let mut s = text.clone();
            fill_inplace(&mut s, w);
            s.len() as u64
        }));
    }
    for total in [20usize, 80] {
        // ASCII-only text here: double-width characters in narrow cells make the
        // pinned wrap_columns panic (a known input-level fact, see DESIGN.md §2).
        let ascii: String = text.chars().filter(|c| c.is_ascii() && *c != '\u{1b}').take(20_000).collect();
        acc = acc.wrapping_add(guarded(&mut panics, || wrap_columns(&ascii, 3, total, "| ", " | ", " |").len() as u64));
    }
    acc = acc.wrapping_add(guarded(&mut panics, || {
        let ind = indent(&text, "  \t");
        ind.len() as u64 + dedent(&ind).len() as u64 + display_width(&text) as u64
    }));

    acc = acc.wrapping_add(guarded(&mut panics, || {
        let first_line = text.lines().next().unwrap();
        let words: Vec<Word<'_>> = WordSeparator::new().find_words(first_line).collect();
        let split: Vec<Word<'_>> =
            textwrap::word_splitters::split_words(words, &WordSplitter::HyphenSplitter).collect();
        let broken = break_words(split, 5);
        wrap_first_fit(&broken, &[10.0, 20.0]).len() as u64
            + probe::optimal_shape(&broken, &[10.0, 20.0]).len() as u64
    }));
    marker("@@CENSUS-END@@\n");

    println!("census checksum {acc} panicked_calls {panics}");
}

fn arg_val(name: &str) -> Option<String> {
    let a: Vec<String> = std::env::args().collect();
    a.iter().position(|x| x == name).and_then(|i| a.get(i + 1).cloned())
}

/// `--dump-key <hex>`: after the digest, print the key and result whose key hash is <hex>
/// (and, for the hot pass, where that key was first executed).
fn dump_key(m: &std::collections::BTreeMap<String, String>, first: Option<&std::collections::BTreeMap<String, String>>) {
    let all = std::env::args().any(|a| a == "--dump-all");
    if let Some(h) = arg_val("--dump-key").or(if all { Some(String::new()) } else { None }) {
        println!("@@DUMP@@");
        // map order is sorted by key; the reference pass executes in REVERSE of it
        for (k, v) in m.iter().rev() {
            if all || format!("{:016x}", probe::fnv(k)) == h {
                println!("key    {k}");
                println!("result {v:?}");
                println!("result-hash {:016x}", probe::fnv(v));
                if let Some(f) = first.and_then(|f| f.get(k)) {
                    println!("first-at {f}");
                }
            }
        }
    }
}

/// `probe`: hot pass (seeded multi-thread call histories with injected events);
/// `probe --cold`: the fresh-process reference pass. Both print one
/// "<key-hash> <result-hash>" line per key after a "@@DIGEST@@" marker; the
/// driver script diffs them.
fn probe_main() {
    let seed: u64 = arg_val("--seed").and_then(|s| s.parse().ok()).unwrap_or(1);
    let runs: u64 = arg_val("--runs").and_then(|s| s.parse().ok()).unwrap_or(200);
    if std::env::args().any(|a| a == "--parallel") {
        match probe::parallel_pass(seed) {
            Ok(line) => println!("{line}"),
            Err(report) => {
                println!("{report}");
                std::process::exit(3);
            }
        }
        return;
    }
    let b = probe::Batch { seed, runs };
    if std::env::args().any(|a| a == "--cold") {
        // `--cold-window <keyhash>:<n>`: only the n calls preceding that key, then the key
        let window = arg_val("--cold-window")
            .and_then(|w| w.split_once(':').map(|(k, n)| (k.to_string(), n.parse::<usize>().unwrap_or(0))));
        let m = probe::cold_pass(&b, window);
        println!("cold pass: seed {seed} runs {runs} keys {}", m.len());
        println!("@@DIGEST@@");
        print!("{}", probe::digest_map(&m));
        dump_key(&m, None);
        return;
    }
    let only = arg_val("--only-run").and_then(|s| s.parse::<u64>().ok()).map(|r| {
        let keep = arg_val("--keep").map(|k| k.split(',').filter_map(|x| x.parse().ok()).collect::<Vec<usize>>());
        (r, keep)
    });
    // `--expect <keyhash>:<resulthash>`: (with --only-run) exit 3 if that key was
    // executed and its result differs from the given fresh-process result.
    let expect = arg_val("--expect").and_then(|e| e.split_once(':').map(|(a, b)| (a.to_string(), b.to_string())));
    match probe::hot_pass(&b, only) {
        Ok((st, m, first)) => {
            if let Some((kh, rh)) = &expect {
                for (k, v) in &m {
                    if format!("{:016x}", probe::fnv(k)) == *kh && format!("{:016x}", probe::fnv(v)) != *rh {
                        println!("HISTORY-DEPENDENT seed={seed} key={k:?}");
                        println!("  in this history ({}) -> {v:?}", first.get(k).map(|s| s.as_str()).unwrap_or("?"));
                        println!("  fresh process, single call -> result hash {rh} (see the cold-pass dump in the replay file)");
                        println!("  steps:");
                        for (i, line) in probe::steps_of_run(&b, arg_val("--only-run").and_then(|s| s.parse().ok()).unwrap_or(0),
                            arg_val("--keep").map(|k| k.split(',').filter_map(|x| x.parse().ok()).collect::<Vec<usize>>())).iter().enumerate() {
                            println!("    [{i}] {line}");
                        }
                        std::process::exit(3);
                    }
                }
            }
            println!(
                "hot pass: seed {seed} runs {} calls {} distinct_keys {} repeated_key_executions {} \
                 keys_on_2plus_threads {} keys_in_2plus_storages {} buffer_reuses_new_contents {} shared_buffer_calls {} \
                 worker_restarts {} faults_armed {} faults_fired {} calls_after_fault_same_thread {} callback_invocations {} \
                 distinct_call_orders {} library_internal_scheduling_points 0",
                st.runs, st.calls, st.distinct_keys, st.repeated_key_executions, st.keys_seen_on_2plus_threads,
                st.keys_seen_in_2plus_storages, st.buffer_reuses_with_new_contents, st.shared_buffer_calls,
                st.worker_restarts, st.faults_armed, st.faults_fired, st.calls_after_a_fault_on_same_thread,
                st.callback_invocations, st.distinct_call_orders
            );
            println!("@@DIGEST@@");
            print!("{}", probe::digest_map(&m));
            dump_key(&m, Some(&first));
        }
        Err(mm) => {
            println!("HISTORY-DEPENDENT seed={seed} run={} key={:?}", mm.run, mm.key);
            println!("  first  ({}) -> {:?}", mm.first, mm.first_result);
            println!("  second ({}) -> {:?}", mm.second, mm.second_result);
            println!("  steps of run {} up to the mismatch:", mm.run);
            let keep = arg_val("--keep").map(|k| k.split(',').filter_map(|x| x.parse().ok()).collect::<Vec<usize>>());
            for (i, line) in probe::steps_of_run(&b, mm.run, keep).iter().take(mm.steps.len()).enumerate() {
                println!("    [{i}] {line}");
            }
            std::process::exit(3);
        }
    }
}

fn main() {
    match std::env::args().nth(1).as_deref() {
        Some("census") => census(),
        Some("probe") => probe_main(),
        _ => {
            eprintln!("usage: premise_audit census | probe [--seed N] [--runs N] [--cold] [--only-run R [--keep i,j,..]] [--replay-dir DIR]");
            std::process::exit(2);
        }
    }
}
