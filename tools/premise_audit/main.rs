// Scratch program used by tools/premise_audit.sh. It decides no property.
//
// 1. Compile-time: the option and fragment types the properties anchor are
//    `Send + Sync` (with `forbid(unsafe_code)` that makes data-race freedom a
//    type-system fact, for every schedule).
// 2. Run-time (`census`): call every anchored entry point on a large,
//    adversarial text between two marker writes so that `strace` can show which
//    system calls the library issues. Nothing is printed between the markers.

use std::io::Write;


use textwrap::core::{break_words, display_width, Word};
use textwrap::wrap_algorithms::wrap_first_fit;
#[cfg(feature = "full")]
use textwrap::wrap_algorithms::Penalties;
use textwrap::{
    dedent, fill, fill_inplace, indent, refill, unfill, wrap, wrap_columns, LineEnding, Options,
    WordSeparator, WordSplitter, WrapAlgorithm,
};

fn assert_send_sync<T: Send + Sync>() {}

#[allow(dead_code)]
fn auto_traits() {
    assert_send_sync::<Options<'static>>();
    assert_send_sync::<WordSeparator>();
    assert_send_sync::<WordSplitter>();
    assert_send_sync::<WrapAlgorithm>();
    assert_send_sync::<LineEnding>();
    assert_send_sync::<Word<'static>>();
    #[cfg(feature = "full")]
    assert_send_sync::<Penalties>();
}

#[cfg(feature = "full")]
fn optimal_alg() -> WrapAlgorithm {
    WrapAlgorithm::new_optimal_fit()
}
#[cfg(not(feature = "full"))]
fn optimal_alg() -> WrapAlgorithm {
    WrapAlgorithm::FirstFit
}
#[cfg(feature = "full")]
fn optimal_lines(words: &[Word<'_>]) -> usize {
    textwrap::wrap_algorithms::wrap_optimal_fit(words, &[10.0, 20.0], &Penalties::new()).map(|l| l.len()).unwrap_or(0)
}
#[cfg(not(feature = "full"))]
fn optimal_lines(_words: &[Word<'_>]) -> usize {
    0
}

fn marker(s: &str) {
    let mut out = std::io::stdout();
    out.write_all(s.as_bytes()).unwrap();
    out.flush().unwrap();
}

fn build_text() -> String {
    let para = "The quick brown fox jumps over the lazy dog, while the \u{1b}[31mred\u{1b}[0m \
                well-known self-contained state-of-the-art \u{1b}]8;;http://example.org\u{1b}\\link\u{1b}]8;;\u{1b}\\ \
                犬も歩けば棒に当たる 😂😍 e\u{301}a\u{308}\u{200b}zero\u{ad}width\u{a0}nbsp \
                supercalifragilisticexpialidociouslylongwordthatneedsbreaking   trailing   ";
    let mut text = String::new();
    for i in 0..800 {
        text.push_str(para);
        text.push_str(if i % 7 == 0 { "\n\n" } else if i % 3 == 0 { "\r\n" } else { "\n" });
        if i % 11 == 0 {
            text.push_str("    indented line\n\t\n  > quoted text goes here\n  > and continues\n");
        }
    }
    text
}

/// Runs one library call; an input-level panic (the census text hitting a
/// defect) is counted, not propagated: it says nothing about the premises.
fn guarded<F: FnOnce() -> u64>(panics: &mut u64, f: F) -> u64 {
    match std::panic::catch_unwind(std::panic::AssertUnwindSafe(f)) {
        Ok(v) => v,
        Err(_) => {
            *panics += 1;
            0
        }
    }
}

fn census() {
    let text = build_text();
    let widths = [0usize, 1, 7, 40, 80, usize::MAX];
    let mut acc: u64 = 0;
    let mut panics: u64 = 0;
    // no message on stderr (that would be a write() between the markers)
    std::panic::set_hook(Box::new(|_| {}));
    // the unwinder's one-time initialisation (a futex) happens here, outside the markers
    let _ = std::panic::catch_unwind(|| panic!("warm-up"));

    marker("@@CENSUS-BEGIN@@\n");
    for &w in &widths {
        for alg in [WrapAlgorithm::FirstFit, optimal_alg()] {
            for sep in [WordSeparator::AsciiSpace, WordSeparator::new()] {
                for bw in [false, true] {
                    for splitter in [WordSplitter::NoHyphenation, WordSplitter::HyphenSplitter] {
                        let opts = Options::new(w)
                            .wrap_algorithm(alg)
                            .word_separator(sep)
                            .break_words(bw)
                            .word_splitter(splitter.clone())
                            .initial_indent("* ")
                            .subsequent_indent("  ");
                        acc = acc.wrapping_add(guarded(&mut panics, || wrap(&text, &opts).len() as u64));
                        acc = acc.wrapping_add(guarded(&mut panics, || fill(&text, &opts).len() as u64));
                    }
                }
            }
        }
        let first_para = text.lines().next().unwrap();
        acc = acc.wrapping_add(guarded(&mut panics, || {
            let filled = fill(first_para, Options::new(w.max(1)).initial_indent("> ").subsequent_indent("> "));
            let (un, o) = unfill(&filled);
            un.len() as u64 + o.width as u64 + refill(&filled, w).len() as u64
        }));
        acc = acc.wrapping_add(guarded(&mut panics, || {
            let mut s = text.clone();
            fill_inplace(&mut s, w);
            s.len() as u64
        }));
    }
    for total in [20usize, 80] {
        // ASCII-only text here: double-width characters in narrow cells make the
        // pinned wrap_columns panic (a known input-level fact, see DESIGN.md §2).
        let ascii: String = text.chars().filter(|c| c.is_ascii() && *c != '\u{1b}').take(20_000).collect();
        acc = acc.wrapping_add(guarded(&mut panics, || wrap_columns(&ascii, 3, total, "| ", " | ", " |").len() as u64));
    }
    acc = acc.wrapping_add(guarded(&mut panics, || {
        let ind = indent(&text, "  \t");
        ind.len() as u64 + dedent(&ind).len() as u64 + display_width(&text) as u64
    }));

    acc = acc.wrapping_add(guarded(&mut panics, || {
        let first_line = text.lines().next().unwrap();
        let words: Vec<Word<'_>> = WordSeparator::new().find_words(first_line).collect();
        let split: Vec<Word<'_>> =
            textwrap::word_splitters::split_words(words, &WordSplitter::HyphenSplitter).collect();
        let broken = break_words(split, 5);
        wrap_first_fit(&broken, &[10.0, 20.0]).len() as u64
            + optimal_lines(&broken) as u64
    }));
    marker("@@CENSUS-END@@\n");

    println!("census checksum {acc} panicked_calls {panics}");
}

fn main() {
    match std::env::args().nth(1).as_deref() {
        Some("census") => census(),
        _ => {
            eprintln!("usage: premise_audit census");
            std::process::exit(2);
        }
    }
}
