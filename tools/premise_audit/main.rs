// Scratch program used by tools/premise_audit.sh. It decides no property.
//
// 1. Compile-time: the option and fragment types the properties anchor are
//    `Send + Sync` (with `forbid(unsafe_code)` that makes data-race freedom a
//    type-system fact, for every schedule).
// 2. Run-time (`census`): call every anchored entry point on a large,
//    adversarial text between two marker writes so that `strace` can show which
//    system calls the library issues. Nothing is printed between the markers.

use std::io::Write;

use textwrap::core::{break_words, display_width, Word};
use textwrap::wrap_algorithms::{wrap_first_fit, wrap_optimal_fit, Penalties};
use textwrap::{
    dedent, fill, fill_inplace, indent, refill, unfill, wrap, wrap_columns, LineEnding, Options,
    WordSeparator, WordSplitter, WrapAlgorithm,
};

fn assert_send_sync<T: Send + Sync>() {}

#[allow(dead_code)]
fn auto_traits() {
    assert_send_sync::<Options<'static>>();
    assert_send_sync::<WordSeparator>();
    assert_send_sync::<WordSplitter>();
    assert_send_sync::<WrapAlgorithm>();
    assert_send_sync::<LineEnding>();
    assert_send_sync::<Word<'static>>();
    assert_send_sync::<Penalties>();
}

fn marker(s: &str) {
    let mut out = std::io::stdout();
    out.write_all(s.as_bytes()).unwrap();
    out.flush().unwrap();
}

fn build_text() -> String {
    let para = "The quick brown fox jumps over the lazy dog, while the \u{1b}[31mred\u{1b}[0m \
                well-known self-contained state-of-the-art \u{1b}]8;;http://example.org\u{1b}\\link\u{1b}]8;;\u{1b}\\ \
                犬も歩けば棒に当たる 😂😍 e\u{301}a\u{308}\u{200b}zero\u{ad}width\u{a0}nbsp \
                supercalifragilisticexpialidociouslylongwordthatneedsbreaking   trailing   ";
    let mut text = String::new();
    for i in 0..800 {
        text.push_str(para);
        text.push_str(if i % 7 == 0 { "\n\n" } else if i % 3 == 0 { "\r\n" } else { "\n" });
        if i % 11 == 0 {
            text.push_str("    indented line\n\t\n  > quoted text goes here\n  > and continues\n");
        }
    }
    text
}

fn census() {
    let text = build_text();
    let widths = [0usize, 1, 7, 40, 80, usize::MAX];
    let mut acc: u64 = 0;

    marker("@@CENSUS-BEGIN@@\n");
    for &w in &widths {
        for alg in [WrapAlgorithm::FirstFit, WrapAlgorithm::new_optimal_fit()] {
            for sep in [WordSeparator::AsciiSpace, WordSeparator::new()] {
                for bw in [false, true] {
                    for splitter in [WordSplitter::NoHyphenation, WordSplitter::HyphenSplitter] {
                        let opts = Options::new(w)
                            .wrap_algorithm(alg)
                            .word_separator(sep)
                            .break_words(bw)
                            .word_splitter(splitter.clone())
                            .initial_indent("* ")
                            .subsequent_indent("  ");
                        let lines = wrap(&text, &opts);
                        acc = acc.wrapping_add(lines.len() as u64);
                        let filled = fill(&text, &opts);
                        acc = acc.wrapping_add(filled.len() as u64);
                    }
                }
            }
        }
        let first_para = text.lines().next().unwrap();
        let filled = fill(first_para, Options::new(w.max(1)).initial_indent("> ").subsequent_indent("> "));
        let (un, o) = unfill(&filled);
        acc = acc.wrapping_add(un.len() as u64 + o.width as u64);
        acc = acc.wrapping_add(refill(&filled, w).len() as u64);
        let mut s = text.clone();
        fill_inplace(&mut s, w);
        acc = acc.wrapping_add(s.len() as u64);
    }
    for total in [20usize, 80] {
        // ASCII-only text here: double-width characters in narrow cells make the
        // pinned wrap_columns panic (a known input-level fact, see DESIGN.md §2).
        let ascii: String = text.chars().filter(|c| c.is_ascii() && *c != '\u{1b}').take(20_000).collect();
        let rows = wrap_columns(&ascii, 3, total, "| ", " | ", " |");
        acc = acc.wrapping_add(rows.len() as u64);
    }
    let ind = indent(&text, "  \t");
    acc = acc.wrapping_add(ind.len() as u64);
    acc = acc.wrapping_add(dedent(&ind).len() as u64);
    acc = acc.wrapping_add(display_width(&text) as u64);

    let first_line = text.lines().next().unwrap();
    let words: Vec<Word<'_>> = WordSeparator::new().find_words(first_line).collect();
    let split: Vec<Word<'_>> =
        textwrap::word_splitters::split_words(words, &WordSplitter::HyphenSplitter).collect();
    let broken = break_words(split, 5);
    acc = acc.wrapping_add(wrap_first_fit(&broken, &[10.0, 20.0]).len() as u64);
    acc = acc.wrapping_add(
        wrap_optimal_fit(&broken, &[10.0, 20.0], &Penalties::new()).map(|l| l.len()).unwrap_or(0) as u64,
    );
    marker("@@CENSUS-END@@\n");

    println!("census checksum {acc}");
}

fn main() {
    match std::env::args().nth(1).as_deref() {
        Some("census") => census(),
        _ => {
            eprintln!("usage: premise_audit census");
            std::process::exit(2);
        }
    }
}
