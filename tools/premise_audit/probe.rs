// Dynamic counterpart of the static premise scan. It decides no property.
//
// Question asked: "is every anchored entry point a function of its arguments,
// whatever the history of earlier calls, whichever caller thread makes the call,
// wherever the caller's buffers live, and whether or not an earlier call was torn
// down by a panic in caller-supplied code?"  DESIGN.md §2 answers yes by
// inspection; this runs the family's own machinery against that answer:
//
//   * caller threads are real threads, each with its own thread-local storage,
//     released ONE CALL AT A TIME by a scheduler driven from one PRNG value
//     (the library has no synchronisation point inside a call, so call
//     granularity is the only granularity there is to schedule);
//   * injected events: caller buffer reuse at the same address with different
//     contents, the same shared buffer used from several threads, worker
//     thread exit + respawn (thread-locals destroyed), and a panic raised from
//     inside `WordSeparator::Custom` / `WordSplitter::Custom` /
//     `WrapAlgorithm::Custom` at the k-th callback invocation, caught by the
//     caller, after which the same thread keeps calling;
//   * oracle: NO reference model of wrapping (that would be input testing under
//     another name).  Every call is keyed by (entry point, argument values);
//     all executions of one key anywhere in the batch must produce the same
//     result, and a second, differently ordered single-thread pass over the
//     keys in a fresh process must reproduce every result.
//
// Output: `PROBE-OK ...` (exit 0), `HISTORY-DEPENDENT ...` (exit 3, with a replay
// file), exit 2 on harness error.  Never prints VIOLATION.

use std::cell::Cell;
use std::collections::BTreeMap;
use std::fmt::Write as _;
use std::sync::mpsc;
use std::sync::Arc;

use textwrap::core::{break_words, display_width, Word};
use textwrap::word_splitters::split_words;
use textwrap::wrap_algorithms::wrap_first_fit;
#[cfg(feature = "full")]
use textwrap::wrap_algorithms::{wrap_optimal_fit, Penalties};
use textwrap::{
    dedent, fill, fill_inplace, indent, refill, unfill, wrap, wrap_columns, LineEnding, Options,
    WordSeparator, WordSplitter, WrapAlgorithm,
};

// ---------------------------------------------------------------------------
// PRNG (splitmix64): the only source of choice in the probe.
#[derive(Clone)]
pub struct Rng(u64);
impl Rng {
    pub fn new(seed: u64) -> Self {
        Rng(seed ^ 0x9E37_79B9_7F4A_7C15)
    }
    fn next(&mut self) -> u64 {
        self.0 = self.0.wrapping_add(0x9E37_79B9_7F4A_7C15);
        let mut z = self.0;
        z = (z ^ (z >> 30)).wrapping_mul(0xBF58_476D_1CE4_E5B9);
        z = (z ^ (z >> 27)).wrapping_mul(0x94D0_49BB_1331_11EB);
        z ^ (z >> 31)
    }
    fn below(&mut self, n: usize) -> usize {
        (self.next() % n as u64) as usize
    }
    fn chance(&mut self, num: u64, den: u64) -> bool {
        self.next() % den < num
    }
}

// ---------------------------------------------------------------------------
// Injected fault: panic from caller-supplied callbacks at the k-th invocation.
thread_local! {
    static COUNTDOWN: Cell<i64> = const { Cell::new(-1) };
    static TICKS: Cell<u64> = const { Cell::new(0) };
}
fn tick() {
    TICKS.with(|t| t.set(t.get() + 1));
    COUNTDOWN.with(|c| {
        let v = c.get();
        if v == 0 {
            c.set(-1);
            panic!("injected callback fault");
        } else if v > 0 {
            c.set(v - 1);
        }
    });
}
fn custom_separator(line: &str) -> Box<dyn Iterator<Item = Word<'_>> + '_> {
    tick();
    WordSeparator::AsciiSpace.find_words(line)
}
fn custom_splitter(word: &str) -> Vec<usize> {
    tick();
    WordSplitter::HyphenSplitter.split_points(word)
}
fn custom_algorithm<'a, 'b>(words: &'b [Word<'a>], line_widths: &'b [usize]) -> Vec<&'b [Word<'a>]> {
    tick();
    let f: Vec<f64> = line_widths.iter().map(|w| *w as f64).collect();
    wrap_first_fit(words, &f)
}

/// Optimal-fit exists only with the `smawk` feature (scratch-crate feature `full`).
#[cfg(feature = "full")]
pub fn optimal_alg() -> WrapAlgorithm {
    WrapAlgorithm::new_optimal_fit()
}
#[cfg(not(feature = "full"))]
pub fn optimal_alg() -> WrapAlgorithm {
    WrapAlgorithm::FirstFit
}
/// Line lengths of the optimal-fit arrangement ("overflow" for `OverflowError`,
/// "n/a" in a build without the `smawk` feature).
#[cfg(feature = "full")]
pub fn optimal_shape<T: textwrap::core::Fragment>(frags: &[T], lws: &[f64]) -> String {
    match wrap_optimal_fit(frags, lws, &Penalties::new()) {
        Ok(ls) => ls.iter().map(|l| l.len().to_string()).collect::<Vec<_>>().join(","),
        Err(_) => "overflow".into(),
    }
}
#[cfg(not(feature = "full"))]
pub fn optimal_shape<T: textwrap::core::Fragment>(_frags: &[T], _lws: &[f64]) -> String {
    "n/a".into()
}

/// A caller-supplied `Fragment` implementation: user code that runs inside
/// `wrap_first_fit` / `wrap_optimal_fit` and can therefore be a fault site.
#[derive(Debug)]
struct UserFragment {
    width: f64,
    whitespace: f64,
    penalty: f64,
}
impl textwrap::core::Fragment for UserFragment {
    fn width(&self) -> f64 {
        tick();
        self.width
    }
    fn whitespace_width(&self) -> f64 {
        self.whitespace
    }
    fn penalty_width(&self) -> f64 {
        self.penalty
    }
}

fn custom_fragments(c: &Call, buf: &str) -> String {
    // fragment sizes come from the text's words; `ii` scales them, `si` scales the
    // line widths (1e155 squared is not finite: the documented OverflowError path)
    let scale = [1.0, 0.5, 3.0, 1e100, 1e200][c.opt.ii as usize % 5];
    let lw_scale = [1.0, 1.0, 2.0, 1e155, 1e300][c.opt.si as usize % 5];
    let frags: Vec<UserFragment> = WordSeparator::AsciiSpace
        .find_words(buf)
        .map(|w| UserFragment {
            width: textwrap::core::Fragment::width(&w) * scale,
            whitespace: w.whitespace.len() as f64 * scale,
            penalty: if w.word.ends_with('-') { 0.0 } else { scale.min(1.0) },
        })
        .collect();
    let w = c.opt.width.min(1 << 20) as f64 * lw_scale;
    let lws = [w / 2.0, w / 3.0, w, w * 0.75];
    let shape = |ls: &[&[UserFragment]]| ls.iter().map(|l| l.len().to_string()).collect::<Vec<_>>().join(",");
    let of = optimal_shape(&frags, &lws);
    let ff = wrap_first_fit(&frags, &lws);
    format!("of[{}] ff[{}]", of, shape(&ff))
}

/// `WrapAlgorithm::wrap` called directly, with one to five usize line widths
/// (through `wrap()` it only ever sees two).
fn alg_wrap(c: &Call, buf: &str, o: &Options<'static>) -> String {
    let words: Vec<Word<'_>> = o.word_separator.find_words(buf).collect();
    let w = c.opt.width.min(1 << 40);
    let all = [w, w / 2, w.saturating_add(7), w / 3, w.saturating_mul(2)];
    let n = 1 + (c.opt.ii as usize + c.opt.si as usize) % 5;
    let lines = o.wrap_algorithm.wrap(&words, &all[..n]);
    format!("n={n} [{}]", lines.iter().map(|l| l.len().to_string()).collect::<Vec<_>>().join(","))
}

// ---------------------------------------------------------------------------
// Calls.
const INDENTS: [&str; 5] = ["", "  ", "> ", "* ", "\u{3000}-"];
const WIDTHS: [usize; 10] = [0, 1, 2, 3, 5, 8, 13, 20, 40, usize::MAX];

#[derive(Clone, Debug, PartialEq, Eq, PartialOrd, Ord)]
pub struct Opt {
    width: usize,
    alg: u8,   // 0 first-fit, 1 optimal-fit, 2 custom
    sep: u8,   // 0 ascii, 1 unicode, 2 custom
    split: u8, // 0 none, 1 hyphen, 2 custom
    bw: bool,
    ii: u8,
    si: u8,
    crlf: bool,
}
impl Opt {
    fn uses_callbacks(&self) -> bool {
        self.alg == 2 || self.sep == 2 || self.split == 2
    }
    fn build(&self) -> Options<'static> {
        let mut o = Options::new(self.width);
        o.wrap_algorithm = match self.alg {
            0 => WrapAlgorithm::FirstFit,
            1 => optimal_alg(),
            _ => WrapAlgorithm::Custom(custom_algorithm),
        };
        o.word_separator = match self.sep {
            0 => WordSeparator::AsciiSpace,
            1 => WordSeparator::new(),
            _ => WordSeparator::Custom(custom_separator),
        };
        o.word_splitter = match self.split {
            0 => WordSplitter::NoHyphenation,
            1 => WordSplitter::HyphenSplitter,
            _ => WordSplitter::Custom(custom_splitter),
        };
        o.break_words = self.bw;
        o.initial_indent = INDENTS[self.ii as usize];
        o.subsequent_indent = INDENTS[self.si as usize];
        o.line_ending = if self.crlf { LineEnding::CRLF } else { LineEnding::LF };
        o
    }
}

#[derive(Clone, Copy, Debug, PartialEq, Eq, PartialOrd, Ord)]
pub enum Kind {
    DisplayWidth,
    Wrap,
    Fill,
    Unfill,
    Refill,
    FillInplace,
    Indent,
    Dedent,
    WrapColumns,
    Words,
    Fragments,
    CustomFragments,
    AlgWrap,
}
const KINDS: [Kind; 13] = [
    Kind::DisplayWidth,
    Kind::Wrap,
    Kind::Fill,
    Kind::Unfill,
    Kind::Refill,
    Kind::FillInplace,
    Kind::Indent,
    Kind::Dedent,
    Kind::WrapColumns,
    Kind::Words,
    Kind::Fragments,
    Kind::CustomFragments,
    Kind::AlgWrap,
];

#[derive(Clone, Debug, PartialEq, Eq, PartialOrd, Ord)]
pub struct Call {
    kind: Kind,
    text: usize, // index into the text pool; the key uses the text's VALUE
    opt: Opt,
    fault_at: i64, // -1: none; k: panic at the k-th callback invocation
}

fn key_of(c: &Call, texts: &[String]) -> String {
    format!("{:?}|{:?}|fault={}|{:?}", c.kind, c.opt, c.fault_at, texts[c.text])
}

fn describe_lines(buf: &str, lines: &[std::borrow::Cow<'_, str>]) -> String {
    // Content AND provenance (borrowed lines as offsets into the caller's buffer).
    let base = buf.as_ptr() as usize;
    let mut s = String::new();
    for l in lines {
        match l {
            std::borrow::Cow::Borrowed(b) => {
                // an empty slice has no meaningful address (it may be a literal "")
                let off = (b.as_ptr() as usize).wrapping_sub(base);
                let off = if b.is_empty() { -2 } else if off <= buf.len() { off as i64 } else { -1 };
                let _ = write!(s, "B@{}+{}:{:?};", off, b.len(), b);
            }
            std::borrow::Cow::Owned(o) => {
                let _ = write!(s, "O:{:?};", o);
            }
        }
    }
    s
}

fn describe_words(ws: &[Word<'_>]) -> String {
    let mut s = String::new();
    for w in ws {
        let _ = write!(s, "{:?}/{:?}/{:?}/{};", w.word, w.whitespace, w.penalty, textwrap::core::Fragment::width(w));
    }
    s
}

/// Executes one call on `buf` (the caller-owned storage that holds the text).
fn execute(c: &Call, buf: &mut String) -> String {
    let o = c.opt.build();
    match c.kind {
        Kind::DisplayWidth => format!("{}", display_width(buf)),
        Kind::Wrap => describe_lines(buf, &wrap(buf, &o)),
        Kind::Fill => format!("{:?}", fill(buf, &o)),
        Kind::Unfill => {
            let (t, uo) = unfill(buf);
            format!("{:?}|{}|{:?}|{:?}|{:?}", t, uo.width, uo.initial_indent, uo.subsequent_indent, uo.line_ending)
        }
        Kind::Refill => format!("{:?}", refill(buf, &o)),
        Kind::FillInplace => {
            let before = buf.as_ptr() as usize;
            fill_inplace(buf, c.opt.width);
            format!("{:?}|same_alloc={}", buf, before == buf.as_ptr() as usize)
        }
        Kind::Indent => format!("{:?}", indent(buf, INDENTS[c.opt.ii as usize])),
        Kind::Dedent => format!("{:?}", dedent(buf)),
        Kind::WrapColumns => {
            let total = c.opt.width.min(60);
            let cols = 1 + (c.opt.ii as usize % 3);
            format!("{:?}", wrap_columns(buf, cols, total, INDENTS[c.opt.si as usize], " | ", "|"))
        }
        Kind::Words => {
            let words: Vec<Word<'_>> = o.word_separator.find_words(buf).collect();
            let split: Vec<Word<'_>> = split_words(words, &o.word_splitter).collect();
            let broken = break_words(split, c.opt.width.min(1 << 20));
            describe_words(&broken)
        }
        Kind::Fragments => {
            let words: Vec<Word<'_>> = o.word_separator.find_words(buf).collect();
            let w = c.opt.width.min(1 << 20) as f64;
            let ff = wrap_first_fit(&words, &[w / 2.0, w / 3.0, w, w * 0.75]);
            let of = optimal_shape(&words, &[w / 2.0, w / 3.0, w, w * 0.75]);
            let shape = |ls: &[&[Word<'_>]]| ls.iter().map(|l| l.len().to_string()).collect::<Vec<_>>().join(",");
            format!("ff[{}] of[{}]", shape(&ff), of)
        }
        Kind::CustomFragments => custom_fragments(c, buf),
        Kind::AlgWrap => alg_wrap(c, buf, &o),
    }
}

/// One call as a caller would make it: arm the fault, call, catch an unwind.
fn run_call(c: &Call, buf: &mut String) -> String {
    COUNTDOWN.with(|cd| cd.set(c.fault_at));
    let r = std::panic::catch_unwind(std::panic::AssertUnwindSafe(|| execute(c, buf)));
    COUNTDOWN.with(|cd| cd.set(-1));
    match r {
        Ok(s) => s,
        Err(e) => {
            let msg = e
                .downcast_ref::<&str>()
                .map(|s| s.to_string())
                .or_else(|| e.downcast_ref::<String>().cloned())
                .unwrap_or_else(|| "?".into());
            format!("PANIC:{msg}")
        }
    }
}

// ---------------------------------------------------------------------------
// Generation.
const VOCAB: [&str; 28] = [
    "a", "to", "the", "quick", "brown-fox", "self-contained", "state-of-the-art", "x-", "-y", "ccc-",
    "supercalifragilistic", "犬も歩けば", "棒", "😂😍", "e\u{301}", "zero\u{200b}width", "soft\u{ad}hyphen",
    "nb\u{a0}sp", "\u{1b}[31mred\u{1b}[0m", "\u{1b}]8;;http://e.org\u{1b}\\link\u{1b}]8;;\u{1b}\\", ">", "*",
    "\u{ff28}", "tab\there", "(", ")", "foo.bar", "1,000",
];
const SEPS: [&str; 9] = [" ", " ", " ", "  ", "   ", "\n", "\n\n", "\r\n", "\n  "];

fn gen_text(rng: &mut Rng) -> String {
    let n = rng.below(14);
    let mut s = String::new();
    if rng.chance(1, 5) {
        s.push_str(INDENTS[rng.below(INDENTS.len())]);
    }
    for i in 0..n {
        if i > 0 {
            s.push_str(SEPS[rng.below(SEPS.len())]);
        }
        s.push_str(VOCAB[rng.below(VOCAB.len())]);
    }
    if rng.chance(1, 4) {
        s.push_str(SEPS[rng.below(SEPS.len())]);
    }
    s
}

fn gen_opt(rng: &mut Rng, callbacks: bool) -> Opt {
    let pick = |rng: &mut Rng| if callbacks && rng.chance(1, 2) { 2 } else { rng.below(2) as u8 };
    let mut o = Opt {
        width: WIDTHS[rng.below(WIDTHS.len())],
        alg: pick(rng),
        sep: pick(rng),
        split: pick(rng),
        bw: rng.chance(1, 2),
        ii: rng.below(INDENTS.len()) as u8,
        si: rng.below(INDENTS.len()) as u8,
        crlf: rng.chance(1, 4),
    };
    if callbacks && !o.uses_callbacks() {
        o.split = 2;
    }
    o
}

fn gen_call(rng: &mut Rng, n_texts: usize) -> Call {
    let kind = KINDS[rng.below(KINDS.len())];
    let takes_callbacks = matches!(kind, Kind::Wrap | Kind::Fill | Kind::Refill | Kind::Words | Kind::WrapColumns | Kind::AlgWrap);
    let callbacks = takes_callbacks && rng.chance(1, 3);
    let opt = gen_opt(rng, callbacks && kind != Kind::WrapColumns);
    let fault_at = if opt.uses_callbacks() && matches!(kind, Kind::Wrap | Kind::Fill | Kind::Refill | Kind::Words | Kind::AlgWrap) && rng.chance(1, 2) {
        rng.below(6) as i64
    } else if kind == Kind::CustomFragments && rng.chance(1, 3) {
        rng.below(12) as i64
    } else {
        -1
    };
    Call { kind, text: rng.below(n_texts), opt, fault_at }
}

// ---------------------------------------------------------------------------
// Steps of a run (this is what a replay file lists).
#[derive(Clone, Debug)]
pub enum Step {
    /// worker w makes the call; `storage`: 0..4 = the worker's own reusable
    /// buffer (same address, new contents), 100 = the batch-wide shared copy of
    /// the text (same address on every thread), 101 = a fresh allocation.
    Call { worker: usize, storage: usize, call: Call },
    /// worker w exits (its thread-locals are destroyed) and is respawned.
    Restart { worker: usize },
}

enum Cmd {
    Run { storage: usize, call: Call },
    Quit,
}

struct Worker {
    tx: mpsc::Sender<Cmd>,
    rx: mpsc::Receiver<(String, u64)>,
    handle: Option<std::thread::JoinHandle<()>>,
}

fn spawn_worker(shared: Arc<Vec<String>>) -> Worker {
    let (tx, crx) = mpsc::channel::<Cmd>();
    let (rtx, rx) = mpsc::channel::<(String, u64)>();
    let handle = std::thread::spawn(move || {
        // Caller-owned reusable storage: fixed capacity so that successive
        // texts land at the same address.
        let mut bufs: Vec<String> = (0..4).map(|_| String::with_capacity(1024)).collect();
        while let Ok(cmd) = crx.recv() {
            match cmd {
                Cmd::Quit => break,
                Cmd::Run { storage, call } => {
                    let before = TICKS.with(|t| t.get());
                    let res = match storage {
                        0..=3 => {
                            let b = &mut bufs[storage];
                            b.clear();
                            b.push_str(&shared[call.text]);
                            run_call(&call, b)
                        }
                        100 if call.kind != Kind::FillInplace => {
                            // shared immutable buffer: identical address on every thread.
                            // (`execute` only needs `&mut` for fill_inplace.)
                            let mut alias = ShareView(&shared[call.text]);
                            alias.run(&call)
                        }
                        _ => {
                            let mut fresh = shared[call.text].clone();
                            run_call(&call, &mut fresh)
                        }
                    };
                    let ticks = TICKS.with(|t| t.get()) - before;
                    if rtx.send((res, ticks)).is_err() {
                        break;
                    }
                }
            }
        }
    });
    Worker { tx, rx, handle: Some(handle) }
}

/// Runs a non-mutating call directly on a shared `&String` (no copy), so that
/// several threads hand the library the very same bytes.
struct ShareView<'a>(&'a String);
impl ShareView<'_> {
    fn run(&mut self, c: &Call) -> String {
        // A private clone of the *String header* is not possible without copying
        // the bytes, so go through a dedicated path that only needs `&str`.
        COUNTDOWN.with(|cd| cd.set(c.fault_at));
        let s: &str = self.0.as_str();
        let r = std::panic::catch_unwind(std::panic::AssertUnwindSafe(|| execute_shared(c, s)));
        COUNTDOWN.with(|cd| cd.set(-1));
        match r {
            Ok(s) => s,
            Err(e) => {
                let msg = e
                    .downcast_ref::<&str>()
                    .map(|s| s.to_string())
                    .or_else(|| e.downcast_ref::<String>().cloned())
                    .unwrap_or_else(|| "?".into());
                format!("PANIC:{msg}")
            }
        }
    }
}
fn execute_shared(c: &Call, s: &str) -> String {
    // identical to `execute` for every kind except FillInplace (excluded by the caller)
    let o = c.opt.build();
    match c.kind {
        Kind::Wrap => describe_lines(s, &wrap(s, &o)),
        Kind::FillInplace => unreachable!(),
        _ => {
            // the remaining kinds never report provenance, so a value-equal
            // path through `execute` on a borrowed view is the same function
            execute_ro(c, s, &o)
        }
    }
}
fn execute_ro(c: &Call, buf: &str, o: &Options<'static>) -> String {
    match c.kind {
        Kind::DisplayWidth => format!("{}", display_width(buf)),
        Kind::Fill => format!("{:?}", fill(buf, o)),
        Kind::Unfill => {
            let (t, uo) = unfill(buf);
            format!("{:?}|{}|{:?}|{:?}|{:?}", t, uo.width, uo.initial_indent, uo.subsequent_indent, uo.line_ending)
        }
        Kind::Refill => format!("{:?}", refill(buf, o)),
        Kind::Indent => format!("{:?}", indent(buf, INDENTS[c.opt.ii as usize])),
        Kind::Dedent => format!("{:?}", dedent(buf)),
        Kind::WrapColumns => {
            let total = c.opt.width.min(60);
            let cols = 1 + (c.opt.ii as usize % 3);
            format!("{:?}", wrap_columns(buf, cols, total, INDENTS[c.opt.si as usize], " | ", "|"))
        }
        Kind::Words => {
            let words: Vec<Word<'_>> = o.word_separator.find_words(buf).collect();
            let split: Vec<Word<'_>> = split_words(words, &o.word_splitter).collect();
            let broken = break_words(split, c.opt.width.min(1 << 20));
            describe_words(&broken)
        }
        Kind::Fragments => {
            let words: Vec<Word<'_>> = o.word_separator.find_words(buf).collect();
            let w = c.opt.width.min(1 << 20) as f64;
            let ff = wrap_first_fit(&words, &[w / 2.0, w / 3.0, w, w * 0.75]);
            let of = optimal_shape(&words, &[w / 2.0, w / 3.0, w, w * 0.75]);
            let shape = |ls: &[&[Word<'_>]]| ls.iter().map(|l| l.len().to_string()).collect::<Vec<_>>().join(",");
            format!("ff[{}] of[{}]", shape(&ff), of)
        }
        Kind::CustomFragments => custom_fragments(c, buf),
        Kind::AlgWrap => alg_wrap(c, buf, o),
        Kind::Wrap | Kind::FillInplace => unreachable!(),
    }
}

// ---------------------------------------------------------------------------
#[derive(Default)]
pub struct Stats {
    pub runs: u64,
    pub calls: u64,
    pub distinct_keys: u64,
    pub repeated_key_executions: u64,
    pub keys_seen_on_2plus_threads: u64,
    pub keys_seen_in_2plus_storages: u64,
    pub buffer_reuses_with_new_contents: u64,
    pub shared_buffer_calls: u64,
    pub worker_restarts: u64,
    pub faults_armed: u64,
    pub faults_fired: u64,
    pub calls_after_a_fault_on_same_thread: u64,
    pub callback_invocations: u64,
    pub distinct_call_orders: u64,
}

struct Seen {
    result: String,
    first: String, // where first seen: "run r step s worker w storage x"
    threads: std::collections::BTreeSet<usize>,
    storages: std::collections::BTreeSet<usize>,
}

pub struct Mismatch {
    pub key: String,
    pub first: String,
    pub first_result: String,
    pub second: String,
    pub second_result: String,
    pub run: u64,
    pub steps: Vec<Step>,
}

fn gen_texts(rng: &mut Rng, n: usize) -> Vec<String> {
    (0..n).map(|_| gen_text(rng)).collect()
}

fn gen_steps(rng: &mut Rng, n_texts: usize, workers: usize, len: usize) -> Vec<Step> {
    let mut steps: Vec<Step> = Vec::new();
    let mut issued: Vec<Call> = Vec::new();
    let mut last_worker = 0;
    for _ in 0..len {
        let mut worker = rng.below(workers);
        if rng.chance(1, 12) {
            steps.push(Step::Restart { worker });
            continue;
        }
        // Three in eight calls repeat an earlier key of this run (so that there is
        // something to compare), from whatever thread and storage the draw gives;
        // two in eight are an earlier call with exactly ONE argument component
        // changed (a memo keyed on too few components answers these wrongly),
        // half of them issued on the thread that made the previous call.
        let draw = rng.below(8);
        let call = if !issued.is_empty() && draw < 3 {
            issued[rng.below(issued.len())].clone()
        } else if !issued.is_empty() && draw < 5 {
            let mut c = issued[rng.below(issued.len())].clone();
            match rng.below(9) {
                0 => c.opt.width = WIDTHS[rng.below(WIDTHS.len())],
                1 => c.opt.crlf = !c.opt.crlf,
                2 => c.opt.bw = !c.opt.bw,
                3 => c.opt.alg = (c.opt.alg + 1) % 2,
                4 => c.opt.sep = (c.opt.sep + 1) % 2,
                5 => c.opt.split = (c.opt.split + 1) % 2,
                6 => c.opt.ii = rng.below(INDENTS.len()) as u8,
                7 => c.opt.si = rng.below(INDENTS.len()) as u8,
                _ => c.text = rng.below(n_texts),
            }
            if !c.opt.uses_callbacks() && c.kind != Kind::CustomFragments {
                c.fault_at = -1;
            }
            if rng.chance(1, 2) {
                worker = last_worker % workers;
            }
            issued.push(c.clone());
            c
        } else {
            let c = gen_call(rng, n_texts);
            issued.push(c.clone());
            c
        };
        let storage = match rng.below(8) {
            0..=4 => rng.below(2), // mostly buffers 0/1: maximise same-address reuse
            5 => 2 + rng.below(2),
            6 => 100,
            _ => 101,
        };
        last_worker = worker;
        steps.push(Step::Call { worker, storage, call });
    }
    steps
}

/// Executes `steps` with `workers` caller threads, released one call at a time.
/// Returns the trace (key, result) in execution order and updates stats.
fn execute_steps(
    texts: &Arc<Vec<String>>,
    workers: usize,
    steps: &[Step],
    run: u64,
    seen: &mut BTreeMap<String, Seen>,
    stats: &mut Stats,
) -> Result<(), Mismatch> {
    let mut pool: Vec<Worker> = (0..workers).map(|_| spawn_worker(texts.clone())).collect();
    let mut last_in_buf: BTreeMap<(usize, usize), usize> = BTreeMap::new();
    let mut faulted: Vec<bool> = vec![false; workers];
    let mut result = Ok(());
    for (i, st) in steps.iter().enumerate() {
        match st {
            Step::Restart { worker } => {
                let w = *worker % workers;
                let _ = pool[w].tx.send(Cmd::Quit);
                if let Some(h) = pool[w].handle.take() {
                    let _ = h.join();
                }
                pool[w] = spawn_worker(texts.clone());
                last_in_buf.retain(|(ww, _), _| *ww != w);
                faulted[w] = false;
                stats.worker_restarts += 1;
            }
            Step::Call { worker, storage, call } => {
                let w = *worker % workers;
                let storage = if *storage == 100 && call.kind == Kind::FillInplace { 101 } else { *storage };
                pool[w].tx.send(Cmd::Run { storage, call: call.clone() }).expect("worker alive");
                let (res, ticks) = pool[w].rx.recv().expect("worker replied");
                stats.calls += 1;
                stats.callback_invocations += ticks;
                if storage < 4 {
                    if let Some(prev) = last_in_buf.insert((w, storage), call.text) {
                        if texts[prev] != texts[call.text] {
                            stats.buffer_reuses_with_new_contents += 1;
                        }
                    }
                }
                if storage == 100 {
                    stats.shared_buffer_calls += 1;
                }
                if faulted[w] {
                    stats.calls_after_a_fault_on_same_thread += 1;
                }
                if call.fault_at >= 0 {
                    stats.faults_armed += 1;
                    if res == "PANIC:injected callback fault" {
                        stats.faults_fired += 1;
                        faulted[w] = true;
                    }
                }
                let key = key_of(call, texts);
                let here = format!("run {run} step {i} worker {w} storage {storage}");
                match seen.get_mut(&key) {
                    None => {
                        stats.distinct_keys += 1;
                        let mut s = Seen { result: res, first: here, threads: Default::default(), storages: Default::default() };
                        s.threads.insert(w);
                        s.storages.insert(storage);
                        seen.insert(key, s);
                    }
                    Some(s) => {
                        stats.repeated_key_executions += 1;
                        if s.threads.insert(w) && s.threads.len() == 2 {
                            stats.keys_seen_on_2plus_threads += 1;
                        }
                        if s.storages.insert(storage) && s.storages.len() == 2 {
                            stats.keys_seen_in_2plus_storages += 1;
                        }
                        if s.result != res {
                            result = Err(Mismatch {
                                key,
                                first: s.first.clone(),
                                first_result: s.result.clone(),
                                second: here,
                                second_result: res,
                                run,
                                steps: steps[..=i].to_vec(),
                            });
                            break;
                        }
                    }
                }
            }
        }
    }
    for w in pool.iter_mut() {
        let _ = w.tx.send(Cmd::Quit);
        if let Some(h) = w.handle.take() {
            let _ = h.join();
        }
    }
    result
}

pub fn fnv(s: &str) -> u64 {
    let mut h: u64 = 0xcbf29ce484222325;
    for b in s.as_bytes() {
        h ^= *b as u64;
        h = h.wrapping_mul(0x100000001b3);
    }
    h
}

pub struct Batch {
    pub seed: u64,
    pub runs: u64,
}

/// The hot pass: `runs` runs, each with its own texts/steps drawn from the batch
/// PRNG; one process, so state left behind by run r is there for run r+1.
/// Returns (stats, key -> result) or the first mismatch.
pub fn hot_pass(
    b: &Batch,
    only_run: Option<(u64, Option<Vec<usize>>)>,
) -> Result<(Stats, BTreeMap<String, String>, BTreeMap<String, String>), Mismatch> {
    std::panic::set_hook(Box::new(|_| {}));
    let mut stats = Stats::default();
    let mut seen: BTreeMap<String, Seen> = BTreeMap::new();
    let mut orders = std::collections::BTreeSet::new();
    let mut rng = Rng::new(b.seed);
    for r in 0..b.runs {
        // every run's parameters come from a per-run PRNG split off the batch PRNG,
        // so a single run can be regenerated without executing its predecessors
        let mut rr = Rng::new(rng.next());
        let n_texts = 2 + rr.below(5);
        let texts = Arc::new(gen_texts(&mut rr, n_texts));
        let workers = 1 + rr.below(4);
        let len = 4 + rr.below(36);
        let mut steps = gen_steps(&mut rr, n_texts, workers, len);
        if let Some((only, keep)) = &only_run {
            if *only != r {
                continue;
            }
            if let Some(keep) = keep {
                steps = keep.iter().filter_map(|i| steps.get(*i).cloned()).collect();
            }
        }
        let order: Vec<(usize, u64)> = steps
            .iter()
            .map(|s| match s {
                Step::Call { worker, call, .. } => (*worker, fnv(&key_of(call, &texts))),
                Step::Restart { worker } => (*worker, 0),
            })
            .collect();
        orders.insert(fnv(&format!("{order:?}")));
        stats.runs += 1;
        execute_steps(&texts, workers, &steps, r, &mut seen, &mut stats)?;
    }
    stats.distinct_call_orders = orders.len() as u64;
    // (key -> result, key -> where it was first executed)
    let first = seen.iter().map(|(k, v)| (k.clone(), v.first.clone())).collect();
    Ok((stats, seen.into_iter().map(|(k, v)| (k, v.result)).collect(), first))
}

/// Every distinct key of the batch with one representative call, reverse-sorted
/// by key: an order no hot-pass run uses.
fn cold_calls(b: &Batch) -> Vec<(String, Call, String)> {
    let mut calls: BTreeMap<String, (Call, String)> = BTreeMap::new();
    let mut rng = Rng::new(b.seed);
    for _ in 0..b.runs {
        let mut rr = Rng::new(rng.next());
        let n_texts = 2 + rr.below(5);
        let texts = gen_texts(&mut rr, n_texts);
        let workers = 1 + rr.below(4);
        let len = 4 + rr.below(36);
        for s in gen_steps(&mut rr, n_texts, workers, len) {
            if let Step::Call { call, .. } = s {
                calls.entry(key_of(&call, &texts)).or_insert_with(|| (call.clone(), texts[call.text].clone()));
            }
        }
    }
    calls.into_iter().rev().map(|(k, (c, t))| (k, c, t)).collect()
}

/// The cold pass: every key once, single thread, fresh allocation per call,
/// reverse-sorted key order, faults armed exactly as recorded in the key.  Run in
/// a fresh process by the driver, so nothing the hot pass left behind is visible.
/// With `window = (keyhash, n)`: only the n calls preceding that key, then the
/// key itself (n = 0: the lone call in a fresh process, the ground truth).
pub fn cold_pass(b: &Batch, window: Option<(String, usize)>) -> BTreeMap<String, String> {
    std::panic::set_hook(Box::new(|_| {}));
    let calls = cold_calls(b);
    let (from, to) = match &window {
        None => (0, calls.len()),
        Some((kh, n)) => match calls.iter().position(|(k, _, _)| format!("{:016x}", fnv(k)) == *kh) {
            Some(p) => (p.saturating_sub(*n), p + 1),
            None => (0, 0),
        },
    };
    let mut out = BTreeMap::new();
    for (k, call, text) in &calls[from..to] {
        let mut fresh = text.clone();
        out.insert(k.clone(), run_call(call, &mut fresh));
    }
    out
}

pub fn digest_map(m: &BTreeMap<String, String>) -> String {
    let mut s = String::new();
    for (k, v) in m {
        let _ = writeln!(s, "{:016x} {:016x}", fnv(k), fnv(v));
    }
    s
}

pub fn step_line(s: &Step, texts_hint: &str) -> String {
    match s {
        Step::Call { worker, storage, call } => format!(
            "call worker={worker} storage={storage} kind={:?} text#{} fault_at={} opt={:?}{texts_hint}",
            call.kind, call.text, call.fault_at, call.opt
        ),
        Step::Restart { worker } => format!("restart worker={worker}"),
    }
}

/// The (optionally filtered) step list of run `run`, one description per step.
pub fn steps_of_run(b: &Batch, run: u64, keep: Option<Vec<usize>>) -> Vec<String> {
    let mut rng = Rng::new(b.seed);
    for r in 0..b.runs {
        let mut rr = Rng::new(rng.next());
        let n_texts = 2 + rr.below(5);
        let texts = gen_texts(&mut rr, n_texts);
        let workers = 1 + rr.below(4);
        let len = 4 + rr.below(36);
        let steps = gen_steps(&mut rr, n_texts, workers, len);
        if r == run {
            let idx: Vec<usize> = keep.unwrap_or_else(|| (0..steps.len()).collect());
            return idx
                .iter()
                .filter_map(|i| steps.get(*i))
                .map(|s| {
                    let hint = match s {
                        Step::Call { call, .. } => format!(" text={:?}", texts[call.text]),
                        _ => String::new(),
                    };
                    step_line(s, &hint)
                })
                .collect();
        }
    }
    Vec::new()
}

// ---------------------------------------------------------------------------
// Parallel mode (meant to be run under Miri, whose scheduler is seeded and
// preempts threads INSIDE library calls): a few caller threads start together
// and make overlapping calls on the same shared buffers, free-running. Under a
// plain `cargo run` the interleaving is the OS's and not replayable; under
// `cargo +nightly miri run` with `-Zmiri-seed=N` it is a function of N.
// Oracle as before: every execution of a key gives the same result, and equals
// the result the main thread computed before any other thread existed.
pub fn parallel_pass(seed: u64) -> Result<String, String> {
    std::panic::set_hook(Box::new(|_| {}));
    let mut rng = Rng::new(seed);
    let n_texts = 2 + rng.below(2);
    let texts: Arc<Vec<String>> = Arc::new((0..n_texts).map(|_| {
        // short texts: an interpreter executes every instruction of every call
        let mut s = String::new();
        for i in 0..(1 + rng.below(4)) {
            if i > 0 {
                s.push_str(SEPS[rng.below(SEPS.len())]);
            }
            s.push_str(VOCAB[rng.below(VOCAB.len())]);
        }
        s
    }).collect());
    let pool: Vec<Call> = (0..3)
        .map(|_| {
            let kind = [Kind::DisplayWidth, Kind::DisplayWidth, Kind::Wrap, Kind::Fill, Kind::Words, Kind::Fragments, Kind::Dedent][rng.below(7)];
            let mut opt = gen_opt(&mut rng, false);
            opt.width = [1, 3, 8, 20][rng.below(4)];
            Call { kind, text: rng.below(n_texts), opt, fault_at: -1 }
        })
        .collect();
    // reference: main thread, before any other thread exists
    let reference: Vec<String> = pool.iter().map(|c| ShareView(&texts[c.text]).run(c)).collect();
    let threads = 2 + rng.below(2);
    let per_thread = 4;
    let plans: Vec<Vec<usize>> = (0..threads).map(|_| (0..per_thread).map(|_| rng.below(pool.len())).collect()).collect();
    let pool = Arc::new(pool);
    let barrier = Arc::new(std::sync::Barrier::new(threads));
    let handles: Vec<_> = plans
        .iter()
        .cloned()
        .map(|plan| {
            let (texts, pool, barrier) = (texts.clone(), pool.clone(), barrier.clone());
            std::thread::spawn(move || {
                barrier.wait();
                plan.iter().map(|&i| (i, ShareView(&texts[pool[i].text]).run(&pool[i]))).collect::<Vec<_>>()
            })
        })
        .collect();
    let mut execs = 0;
    for (t, h) in handles.into_iter().enumerate() {
        for (i, res) in h.join().map_err(|_| "worker panicked outside a library call".to_string())? {
            execs += 1;
            if res != reference[i] {
                return Err(format!(
                    "SCHEDULE-DEPENDENT seed={seed} thread={t} key={:?}\n  before any thread existed -> {:?}\n  under this interleaving   -> {:?}\n  plans={plans:?}",
                    key_of(&pool[i], &texts), reference[i], res
                ));
            }
        }
    }
    Ok(format!("parallel pass: seed {seed} threads {threads} distinct_keys {} concurrent_executions {execs}", pool.len()))
}
