#!/usr/bin/env bash
# Self-test of tools/premise_audit.sh (informational, like the audit itself: it
# decides no property and never prints VIOLATION).
#
# In a scratch worktree of /repo's HEAD under /var/tmp (removed on exit) it applies,
# one at a time,
#   * the seam-introducing changes  — tools/premise_audit/selftest/*.diff (mine)
#     and the /verif/seeded/S* whose meta.json says class "seam" (independent sub-agents) — and expects
#     PREMISE-CHANGED from the static scan AND, separately, from the dynamic probe;
#   * the /verif/seeded/S* of class "input-level" (independent sub-agents) and expects PREMISES-HOLD: they break a property without creating
#     anything a simulator could schedule or fail, so the not-applicable verdict
#     still describes those trees (and nothing in this family can see them).
# It starts with the unpatched worktree, which must give PREMISES-HOLD.
# With --miri it also runs the interpreter pass against the *.miri.diff seam.
#
# exit 0: every expectation met; exit 1: some expectation not met; exit 2: harness error.
set -u
HERE="$(cd "$(dirname "$0")" && pwd)"
VERIF="$(dirname "$HERE")"
WT="$(mktemp -d /var/tmp/audit_selftest.XXXXXX)" || exit 2
cleanup() { git -C /repo worktree remove --force "$WT/wt" >/dev/null 2>&1; rm -rf "$WT"; git -C /repo worktree prune >/dev/null 2>&1; }
trap cleanup EXIT
git -C /repo worktree add --detach "$WT/wt" HEAD >/dev/null 2>&1 || { echo "selftest error: cannot create scratch worktree"; exit 2; }
export REPLAY_DIR="$WT/replay"
bad=0

run_case() {  # name patch expect(static) expect(probe)
  local name="$1" patch="$2" want_static="$3" want_probe="$4"
  if [ -n "$patch" ]; then
    git -C "$WT/wt" apply "$patch" || { echo "selftest error: $patch does not apply"; exit 2; }
  fi
  REPO="$WT/wt" bash "$HERE/premise_audit.sh" >"$WT/log" 2>&1; local rc=$?
  [ $rc -eq 2 ] && { tail -5 "$WT/log"; echo "selftest error: audit could not run on $name"; exit 2; }
  local got_static=hold got_probe=hold
  grep -q '^premise CHANGED: src/' "$WT/log" && got_static=changed
  grep -q '^premise CHANGED: dynamic probe: ' "$WT/log" && got_probe=changed
  local steps; steps="$(sed -n 's/^premise CHANGED: dynamic probe: \(.*\) (replay:.*/\1/p' "$WT/log" | head -1 | cut -c1-90)"
  local verdict=ok
  { [ "$got_static" = "$want_static" ] && { [ "$got_probe" = "$want_probe" ] || [ "$want_probe" = either ]; }; } || { verdict=UNEXPECTED; bad=1; }
  printf '%-62s static=%-7s probe=%-7s audit_exit=%s %s %s\n' "$name" "$got_static" "$got_probe" "$rc" "${steps:+[$steps]}" "$verdict"
  git -C "$WT/wt" checkout -- . >/dev/null 2>&1; git -C "$WT/wt" clean -fdq -- src >/dev/null 2>&1
}

run_case "unpatched HEAD" "" hold hold
for p in "$HERE"/premise_audit/selftest/*.diff; do
  case "$p" in
    # sequentially correct, wrong only when two calls interleave INSIDE the memo
    # update: the call-granular probe must stay quiet, the --miri pass must not
    *.miri.diff) run_case "seam (in-call race): $(basename "$p" .miri.diff)" "$p" changed hold
                 if [ "${1:-}" = "--miri" ]; then
                   git -C "$WT/wt" apply "$p"
                   REPO="$WT/wt" bash "$HERE/premise_audit.sh" --no-census --no-probe --miri >"$WT/log" 2>&1
                   if grep -q '^premise CHANGED: miri pass' "$WT/log"; then echo "    --miri: flagged ($(sed -n 's/.*(\(workload seed [^;]*\);.*/\1/p' "$WT/log" | head -1)) ok"
                   else echo "    --miri: NOT flagged UNEXPECTED"; bad=1; fi
                   git -C "$WT/wt" checkout -- . >/dev/null 2>&1
                 fi ;;
    *) run_case "seam: $(basename "$p" .diff)" "$p" changed changed ;;
  esac
done
for d in "$VERIF"/seeded/S*; do
  [ -f "$d/patch.diff" ] || continue
  n="$(basename "$d")"
  # SELFTEST_ONLY=<regex>: only the seeded changes whose directory name matches
  if [ -n "${SELFTEST_ONLY:-}" ] && ! echo "$n" | grep -qE "$SELFTEST_ONLY"; then continue; fi
  case "$(sed -n 's/.*"class": "\([a-z-]*\)".*/\1/p' "$d/meta.json" | head -1)" in
    input-level) run_case "input-level: $n" "$d/patch.diff" hold hold ;;
    seam)        if grep -q '"audit_probe_expected": "either"' "$d/meta.json"; then
                   run_case "seam (independent, probe either way): $n" "$d/patch.diff" changed either
                 else
                   run_case "seam (independent): $n" "$d/patch.diff" changed changed
                 fi ;;
    # stale state inside a caller-held object: nothing for the static scan to see
    seam-object) run_case "seam in a caller-held object (independent): $n" "$d/patch.diff" hold changed ;;
    # wrong only when two calls overlap in time: the call-granular probe must stay quiet
    seam-race)   run_case "seam, race (independent): $n" "$d/patch.diff" changed hold ;;
    # a fault is needed to reach it, but the state lives in a local object and the wrong
    # value is the same on every execution: nothing for the scan or the probe to see
    seam-fault-deterministic) run_case "fault-reached, deterministic (independent): $n" "$d/patch.diff" hold hold ;;
    *)           echo "selftest error: $d/meta.json has no class"; exit 2 ;;
  esac
done
[ $bad -eq 0 ] && echo "SELFTEST-OK" || echo "SELFTEST-UNEXPECTED"
exit $bad
