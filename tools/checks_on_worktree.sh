#!/usr/bin/env bash
# Experiment helper (not a registered command): run the quick tier of every
# registered check against a scratch worktree of textwrap instead of /repo, so
# that several changed trees can be examined without touching /repo.
# usage: tools/checks_on_worktree.sh <worktree dir> [props...]
# Copies sim/ to <worktree>/.tw_sim with its path dependency pointed at the
# worktree; builds and writes everything under <worktree>/.tw_out.
set -u
VERIF="$(cd "$(dirname "$0")/.." && pwd)"
WT="$(cd "$1" && pwd)" || exit 2
shift
PROPS="${*:-C03 C05 C07 C10 C11 C12 C17 C18 C19}"
rm -rf "$WT/.tw_sim"; mkdir -p "$WT/.tw_sim" "$WT/.tw_out"
cp -r "$VERIF/sim/src" "$VERIF/sim/Cargo.toml" "$VERIF/sim/Cargo.lock" "$WT/.tw_sim/" 2>/dev/null
sed -i "s#path = \"/repo\"#path = \"$WT\"#" "$WT/.tw_sim/Cargo.toml"
caught=""
for p in $PROPS; do
  TW_SIM_SRC="$WT/.tw_sim" TW_OUT="$WT/.tw_out" python3 "$VERIF/checks/check.py" "$p" quick >"$WT/.tw_out/$p.log" 2>&1; rc=$?
  echo "$(basename "$WT") $p exit=$rc $(grep -m1 "^$p: " "$WT/.tw_out/$p.log" | cut -c1-150)"
  [ $rc -eq 1 ] && caught="$caught $p"
done
echo "$(basename "$WT") caught_by:${caught:- none}"
