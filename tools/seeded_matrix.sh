#!/usr/bin/env bash
# Runs every registered check (quick tier) against every seeded change, the way
# the brief prescribes: apply the patch to /repo (git -C /repo apply), run the
# checks, undo it straight afterwards (git -C /repo checkout -- .).  Also runs
# them on the unpatched tree first (must all pass).  Writes seeded/matrix.json
# and prints one line per (change, check).
#
# usage: tools/seeded_matrix.sh [pattern]     e.g. tools/seeded_matrix.sh 'S1[0-9]'
# Refuses to start if /repo has uncommitted changes.
set -u
VERIF="$(cd "$(dirname "$0")/.." && pwd)"
PAT="${1:-S}"
[ "$PAT" = S ] || export MATRIX_MERGE=1   # a restricted run is merged into seeded/matrix.json
PROPS="C03 C05 C07 C10 C11 C12 C17 C18 C19"
[ -z "$(git -C /repo status --porcelain)" ] || { echo "matrix error: /repo has uncommitted changes"; exit 2; }
trap 'git -C /repo checkout -- . >/dev/null 2>&1; git -C /repo clean -fdq -- src >/dev/null 2>&1' EXIT
OUT="$(mktemp /var/tmp/matrix.XXXXXX)"
run_all() {  # $1 = label
  for p in $PROPS; do
    log="$(mktemp /var/tmp/matrix_log.XXXXXX)"
    python3 "$VERIF/checks/check.py" "$p" quick >"$log" 2>&1; rc=$?
    v="$(grep -c '^VIOLATION' "$log")"
    what="$(grep -m1 "^$p: " "$log" | cut -c1-160)"
    echo "$1 $p exit=$rc violation_lines=$v $what"
    printf '%s\t%s\t%s\t%s\t%s\n' "$1" "$p" "$rc" "$v" "$what" >>"$OUT"
    rm -f "$log"
  done
}
run_all "unpatched"
for d in "$VERIF"/seeded/S* "$VERIF"/tools/premise_audit/selftest; do
  if [ -f "$d/patch.diff" ]; then
    n="$(basename "$d")"
    case "$n" in $PAT*) ;; *) echo "$n" | grep -q "$PAT" || continue ;; esac
    git -C /repo apply "$d/patch.diff" || { echo "matrix error: $d/patch.diff does not apply"; exit 2; }
    run_all "$n"
    git -C /repo checkout -- . >/dev/null 2>&1; git -C /repo clean -fdq -- src  # a patch may add files
  elif [ -d "$d" ] && [ "$(basename "$d")" = selftest ]; then
    for p in "$d"/*.diff; do
      n="own-$(basename "$p" .diff)"
      [ "$PAT" = S ] || continue
      git -C /repo apply "$p" || { echo "matrix error: $p does not apply"; exit 2; }
      run_all "$n"
      git -C /repo checkout -- . >/dev/null 2>&1; git -C /repo clean -fdq -- src
    done
  fi
done
# the checks rewrite evidence/<id>.json on every run: leave behind the evidence of the UNCHANGED tree
git -C /repo checkout -- . >/dev/null 2>&1; git -C /repo clean -fdq -- src
[ -z "$(git -C /repo status --porcelain)" ] || { echo "matrix error: /repo is not clean at the end"; exit 2; }
for p in $PROPS; do python3 "$VERIF/checks/check.py" "$p" quick >/dev/null 2>&1 || echo "matrix error: $p does not pass on the unchanged tree"; done
python3 - "$OUT" "$VERIF/seeded/matrix.json" <<'PY'
import json, sys, collections
rows = [l.rstrip("\n").split("\t") for l in open(sys.argv[1])]
m = collections.OrderedDict()
for label, prop, rc, v, what in rows:
    m.setdefault(label, {})[prop] = {"exit": int(rc), "violation": int(v) > 0, "summary": what}
# a run restricted by a pattern adds its rows to the existing file instead of replacing it
import os
if os.environ.get("MATRIX_MERGE") == "1" and os.path.exists(sys.argv[2]):
    old = json.load(open(sys.argv[2]))["checks_quick_tier"]
    old.update(m)
    m = old
summary = {k: sorted(p for p, r in v.items() if r["violation"]) for k, v in m.items()}
json.dump({"checks_quick_tier": m, "violations_by_change": summary}, open(sys.argv[2], "w"), indent=1)
for k, v in summary.items():
    print(f"{k:64s} {'caught by ' + ','.join(v) if v else '-'}")
PY
rm -f "$OUT"
